package main

// Replay of solver counterexamples against the real code: the model is projected onto the
// function's inputs, a test calling the real function with those inputs is injected with
// `go test -overlay` (nothing is written into the repository), and the observed behaviour
// (panic / results) is compared with the failed obligation.

import (
	"bytes"
	"context"
	"encoding/json"
	"fmt"
	"go/types"
	"math/big"
	"os"
	"os/exec"
	"path/filepath"
	"strings"
	"time"

	"golang.org/x/tools/go/ssa"
)

func cmdReplay(args []string) int {
	if len(args) < 1 {
		fmt.Fprintln(os.Stderr, "usage: govc replay <replay.json>")
		return 2
	}
	data, err := os.ReadFile(args[0])
	if err != nil {
		fmt.Fprintln(os.Stderr, err)
		return 2
	}
	var rec map[string]interface{}
	if err := json.Unmarshal(data, &rec); err != nil {
		fmt.Fprintln(os.Stderr, err)
		return 2
	}
	fmt.Printf("obligation: %v\nat: %v\nstates: %v\nstatus: %v\n", rec["obligation"], rec["at"], rec["states"], rec["status"])
	src, _ := rec["replay_test_source"].(string)
	dir, _ := rec["replay_package_dir"].(string)
	tags, _ := rec["replay_tags"].(string)
	if src == "" {
		fmt.Println("no executable replay recorded (no-failing-input-found); solver output:")
		fmt.Println(rec["solver_output"])
		return 1
	}
	out, _ := runOverlayTest("/repo", dir, src, tags, nil)
	fmt.Println(out)
	if strings.Contains(out, "GOVC-REPLAY") {
		return 1
	}
	return 0
}

// getValues runs script + (get-value terms) and returns term -> value text.
func getValues(script string, terms []string, cfg SolverCfg, name string) (map[string]string, bool) {
	if len(terms) == 0 {
		return map[string]string{}, true
	}
	var b strings.Builder
	b.WriteString(script)
	b.WriteString("(check-sat)\n")
	for i := 0; i < len(terms); i += 200 {
		j := i + 200
		if j > len(terms) {
			j = len(terms)
		}
		b.WriteString("(get-value (" + strings.Join(terms[i:j], " ") + "))\n")
	}
	file := writeFile(cfg.WorkDir, name+".smt2", b.String())
	for _, sd := range solvers[:2] {
		out, _ := runSolver(sd, file, 5000, 8*time.Second)
		rs := parseResults(out)
		if len(rs) == 0 || rs[0] != "sat" {
			continue
		}
		vals := parseGetValue(out)
		if len(vals) >= len(terms) {
			m := map[string]string{}
			for i, t := range terms {
				m[t] = vals[i]
			}
			return m, true
		}
	}
	return nil, false
}

// parseGetValue extracts the values of ((term value) ...) answers in order.
func parseGetValue(out string) []string {
	var vals []string
	i := strings.Index(out, "((")
	if i < 0 {
		return nil
	}
	s := out[i:]
	// tokenise s-expressions: top-level lists of pairs
	pos := 0
	var parse func() (string, bool)
	skip := func() {
		for pos < len(s) && (s[pos] == ' ' || s[pos] == '\n' || s[pos] == '\t' || s[pos] == '\r') {
			pos++
		}
	}
	parse = func() (string, bool) {
		skip()
		if pos >= len(s) {
			return "", false
		}
		if s[pos] == '(' {
			start := pos
			depth := 0
			for pos < len(s) {
				if s[pos] == '(' {
					depth++
				} else if s[pos] == ')' {
					depth--
					if depth == 0 {
						pos++
						return s[start:pos], true
					}
				}
				pos++
			}
			return "", false
		}
		start := pos
		for pos < len(s) && !strings.ContainsRune(" \n\t\r()", rune(s[pos])) {
			pos++
		}
		return s[start:pos], true
	}
	for {
		skip()
		if pos >= len(s) || s[pos] != '(' {
			break
		}
		pos++ // enter outer list
		for {
			skip()
			if pos < len(s) && s[pos] == ')' {
				pos++
				break
			}
			if pos >= len(s) || s[pos] != '(' {
				return vals
			}
			pos++ // enter pair
			if _, ok := parse(); !ok {
				return vals
			}
			v, ok := parse()
			if !ok {
				return vals
			}
			vals = append(vals, v)
			skip()
			if pos < len(s) && s[pos] == ')' {
				pos++
			}
		}
	}
	return vals
}

func smtValToBig(v string) (*big.Int, bool) {
	v = strings.TrimSpace(v)
	switch {
	case strings.HasPrefix(v, "#x"):
		n, ok := new(big.Int).SetString(v[2:], 16)
		return n, ok
	case strings.HasPrefix(v, "#b"):
		n, ok := new(big.Int).SetString(v[2:], 2)
		return n, ok
	case strings.HasPrefix(v, "(_ bv"):
		n, _, ok := asLit(v)
		return n, ok
	case strings.HasPrefix(v, "(- "):
		n, ok := new(big.Int).SetString(strings.TrimSuffix(v[3:], ")"), 10)
		if ok {
			n.Neg(n)
		}
		return n, ok
	case v == "true":
		return big.NewInt(1), true
	case v == "false":
		return big.NewInt(0), true
	}
	n, ok := new(big.Int).SetString(v, 10)
	return n, ok
}

type replayBuilder struct {
	vc      *VC
	cfg     SolverCfg
	script  string // single obligation script without check-sat
	fixed   []string
	pkg     *types.Package
	imports map[string]string
	stmts   []string
	nvar    int
	fail    string
	byRef   map[string]string // "ref/type" -> variable name (aliasing)
	depth   int
	nq      int
	t0      time.Time
}

func (rb *replayBuilder) query(terms []string) (map[string]string, bool) {
	rb.nq++
	if rb.nq > 40 || time.Since(rb.t0) > 45*time.Second {
		rb.fail = "replay budget exhausted (inputs too large to extract from the model)"
		return nil, false
	}
	sc := rb.script + strings.Join(rb.fixed, "\n") + "\n"
	m, ok := getValues(sc, terms, rb.cfg, fmt.Sprintf("replay_q%d", len(rb.fixed)))
	if !ok {
		return nil, false
	}
	for _, t := range terms {
		rb.fixed = append(rb.fixed, fmt.Sprintf("(assert (= %s %s))", t, m[t]))
	}
	return m, true
}

func (rb *replayBuilder) typeStr(t types.Type) string {
	return types.TypeString(t, func(p *types.Package) string {
		if p == rb.pkg {
			return ""
		}
		rb.imports[p.Path()] = p.Name()
		return p.Name()
	})
}

func (rb *replayBuilder) newVar() string {
	rb.nvar++
	return fmt.Sprintf("v%d", rb.nvar)
}

func (rb *replayBuilder) intExpr(t types.Type, n *big.Int, w int, signed bool) string {
	if signed {
		n = toSigned(n, w)
	}
	return fmt.Sprintf("%s(%s)", rb.typeStr(t), n.String())
}

// build returns a Go expression for a value of type t described by Val v in heap h.
func (rb *replayBuilder) build(t types.Type, v *Val, h *Heap) string {
	if rb.fail != "" {
		return "nil"
	}
	rb.depth++
	defer func() { rb.depth-- }()
	if rb.depth > 6 {
		rb.fail = "structure too deep"
		return "nil"
	}
	switch v.K {
	case KBV:
		m, ok := rb.query([]string{v.C[0]})
		if !ok {
			rb.fail = "no model value"
			return "0"
		}
		n, _ := smtValToBig(m[v.C[0]])
		return rb.intExpr(t, n, v.W, v.Signed)
	case KBool:
		m, ok := rb.query([]string{v.C[0]})
		if !ok {
			rb.fail = "no model value"
			return "false"
		}
		return m[v.C[0]]
	case KString:
		m, ok := rb.query([]string{v.C[0], v.C[1], v.C[2]})
		if !ok {
			rb.fail = "no model value"
			return `""`
		}
		ln, _ := smtValToBig(m[v.C[2]])
		if ln.Cmp(big.NewInt(1<<16)) > 0 {
			rb.fail = "string too long"
			return `""`
		}
		bs := rb.bytesAt(h, m[v.C[0]], m[v.C[1]], int(ln.Int64()))
		return fmt.Sprintf("%s(%s)", rb.typeStr(t), bytesLit(bs))
	case KSlice:
		m, ok := rb.query([]string{v.C[0], v.C[1], v.C[2], v.C[3]})
		if !ok {
			rb.fail = "no model value"
			return "nil"
		}
		r, _ := smtValToBig(m[v.C[0]])
		if r.Sign() == 0 {
			return fmt.Sprintf("%s(nil)", rb.typeStr(t))
		}
		ln, _ := smtValToBig(m[v.C[2]])
		cp, _ := smtValToBig(m[v.C[3]])
		if cp.Cmp(big.NewInt(1<<20)) > 0 || ln.Cmp(cp) > 0 {
			if ln.Cmp(big.NewInt(1<<20)) > 0 {
				rb.fail = "slice too large for replay"
				return "nil"
			}
			cp = ln
		}
		et := t.Underlying().(*types.Slice).Elem()
		l := layoutOf(et)
		name := rb.newVar()
		rb.stmts = append(rb.stmts, fmt.Sprintf("%s := make(%s, %d, %d)", name, rb.typeStr(t), ln.Int64(), cp.Int64()))
		n := int(ln.Int64())
		if l.Kind == KBV && l.W == 8 {
			bs := rb.bytesAt(h, m[v.C[0]], m[v.C[1]], n)
			if n > 0 {
				rb.stmts = append(rb.stmts, fmt.Sprintf("copy(%s, %s)", name, bytesLit(bs)))
			}
			return name
		}
		if n > 4096 {
			rb.fail = "slice too large for replay"
			return "nil"
		}
		for i := 0; i < n; i++ {
			off := bvBin("bvadd", m[v.C[1]], off64(int64(i)*l.N))
			ev := rb.vc.load(h, l, et, m[v.C[0]], off)
			rb.stmts = append(rb.stmts, fmt.Sprintf("%s[%d] = %s", name, i, rb.build(et, ev, h)))
		}
		return name
	case KPtr:
		if isUnsafePtr(t) {
			rb.fail = "unsafe pointer"
			return "nil"
		}
		m, ok := rb.query([]string{v.C[0], v.C[1]})
		if !ok {
			rb.fail = "no model value"
			return "nil"
		}
		r, _ := smtValToBig(m[v.C[0]])
		if r.Sign() == 0 {
			return fmt.Sprintf("(%s)(nil)", rb.typeStr(t))
		}
		et := t.Underlying().(*types.Pointer).Elem()
		key := m[v.C[0]] + "/" + m[v.C[1]] + "/" + et.String()
		if name, ok := rb.byRef[key]; ok {
			return name
		}
		name := rb.newVar()
		rb.byRef[key] = name
		rb.stmts = append(rb.stmts, fmt.Sprintf("%s := new(%s)", name, rb.typeStr(et)))
		ev := rb.vc.load(h, layoutOf(et), et, m[v.C[0]], m[v.C[1]])
		if ev.K == KAgg {
			rb.fillAgg("(*"+name+")", et, ev)
		} else {
			rb.stmts = append(rb.stmts, fmt.Sprintf("*%s = %s", name, rb.build(et, ev, h)))
		}
		return name
	case KAgg:
		m, ok := rb.query([]string{v.C[0], v.C[1]})
		if !ok {
			rb.fail = "no model value"
			return "nil"
		}
		name := rb.newVar()
		rb.stmts = append(rb.stmts, fmt.Sprintf("var %s %s", name, rb.typeStr(t)))
		nv := &Val{K: KAgg, T: t, H: v.H, C: []string{m[v.C[0]], m[v.C[1]]}}
		rb.fillAgg(name, t, nv)
		return name
	case KIface:
		m, ok := rb.query([]string{v.C[0]})
		if ok {
			if n, _ := smtValToBig(m[v.C[0]]); n != nil && n.Sign() == 0 {
				return fmt.Sprintf("%s(nil)", rb.typeStr(t))
			}
		}
		rb.fail = "interface-typed input"
		return "nil"
	case KFunc, KMap, KChan:
		return "nil"
	}
	rb.fail = "unsupported input kind " + v.K.String()
	return "nil"
}

func (rb *replayBuilder) fillAgg(lhs string, t types.Type, v *Val) {
	l := layoutOf(t)
	switch u := t.Underlying().(type) {
	case *types.Array:
		el := layoutOf(u.Elem())
		if u.Len() > 4096 {
			rb.fail = "array too large for replay"
			return
		}
		if el.Kind == KBV {
			// batch query
			var terms []string
			for i := int64(0); i < u.Len(); i++ {
				ev := rb.vc.load(v.H, el, u.Elem(), v.C[0], bvBin("bvadd", v.C[1], off64(i*el.N)))
				terms = append(terms, ev.C[0])
			}
			m, ok := rb.query(terms)
			if !ok {
				rb.fail = "no model value"
				return
			}
			var parts []string
			allZero := true
			for _, tm := range terms {
				n, _ := smtValToBig(m[tm])
				if n.Sign() != 0 {
					allZero = false
				}
				if el.Signed {
					n = toSigned(n, el.W)
				}
				parts = append(parts, n.String())
			}
			if !allZero {
				rb.stmts = append(rb.stmts, fmt.Sprintf("%s = %s{%s}", lhs, rb.typeStr(t), strings.Join(parts, ", ")))
			}
			return
		}
		for i := int64(0); i < u.Len(); i++ {
			ev := rb.vc.load(v.H, el, u.Elem(), v.C[0], bvBin("bvadd", v.C[1], off64(i*el.N)))
			if ev.K == KAgg {
				rb.fillAgg(fmt.Sprintf("%s[%d]", lhs, i), u.Elem(), ev)
			} else {
				rb.stmts = append(rb.stmts, fmt.Sprintf("%s[%d] = %s", lhs, i, rb.build(u.Elem(), ev, v.H)))
			}
		}
	case *types.Struct:
		for i := 0; i < u.NumFields(); i++ {
			f := u.Field(i)
			if f.Name() == "_" {
				continue
			}
			ev := rb.vc.load(v.H, l.FL[i], f.Type(), v.C[0], bvBin("bvadd", v.C[1], off64(l.Fields[i])))
			if !f.Exported() && f.Pkg() != rb.pkg {
				continue // cannot set foreign unexported field
			}
			if ev.K == KAgg {
				rb.fillAgg(lhs+"."+f.Name(), f.Type(), ev)
			} else if ev.K == KIface || ev.K == KFunc || ev.K == KMap || ev.K == KChan {
				continue // left as zero value
			} else {
				rb.stmts = append(rb.stmts, fmt.Sprintf("%s.%s = %s", lhs, f.Name(), rb.build(f.Type(), ev, v.H)))
			}
		}
	}
}

func (rb *replayBuilder) bytesAt(h *Heap, r, o string, n int) []byte {
	if n > 1<<20 {
		rb.fail = "too large"
		return nil
	}
	var terms []string
	for i := 0; i < n; i++ {
		terms = append(terms, sel(sel(h.m["bv8"], r), bvBin("bvadd", o, off64(int64(i)))))
	}
	m, ok := rb.query(terms)
	if !ok {
		rb.fail = "no model value"
		return nil
	}
	out := make([]byte, n)
	for i, t := range terms {
		v, _ := smtValToBig(m[t])
		if v != nil {
			out[i] = byte(v.Int64())
		}
	}
	return out
}

func bytesLit(b []byte) string {
	var sb strings.Builder
	sb.WriteString("[]byte{")
	for i, x := range b {
		if i > 0 {
			sb.WriteString(",")
		}
		fmt.Fprintf(&sb, "%d", x)
	}
	sb.WriteString("}")
	return sb.String()
}

func (vc *VC) replayOnRealCode(fr *FuncResult, or *ObResult, repo string, rec map[string]interface{}) bool {
	fn := vc.fn
	if fn == nil || fn.Pkg == nil || fn.Synthetic != "" || fn.Parent() != nil || fn.TypeParams().Len() > 0 || fn.Origin() != nil {
		rec["replay_note"] = "function kind not replayable (closure/generic/synthetic)"
		return false
	}
	script := vc.singleScript(or.Ob, false)
	script = strings.TrimSuffix(strings.TrimSpace(script), "(check-sat)") + "\n"
	rdir, _ := os.MkdirTemp("", "govc-replay")
	rb := &replayBuilder{vc: vc, cfg: SolverCfg{WorkDir: rdir, TimeoutMS: 20000}, script: script, pkg: fn.Pkg.Pkg, imports: map[string]string{}, byRef: map[string]string{}, t0: time.Now()}
	genMu.Lock()
	var argExprs []string
	func() {
		defer func() {
			if r := recover(); r != nil {
				rb.fail = fmt.Sprint(r)
			}
		}()
		for i, p := range fn.Params {
			argExprs = append(argExprs, rb.build(p.Type(), vc.paramVals[i], vc.heap0))
		}
	}()
	genMu.Unlock()
	defer os.RemoveAll(rb.cfg.WorkDir)
	if rb.fail != "" {
		rec["replay_note"] = "inputs could not be built from the model: " + rb.fail
		return false
	}
	// call expression
	var call string
	sig := fn.Signature
	if sig.Recv() != nil {
		call = fmt.Sprintf("%s.%s(%s)", argExprs[0], fn.Name(), strings.Join(argExprs[1:], ", "))
		if _, isPtr := sig.Recv().Type().(*types.Pointer); isPtr {
			call = fmt.Sprintf("(%s).%s(%s)", argExprs[0], fn.Name(), strings.Join(argExprs[1:], ", "))
		}
	} else {
		call = fmt.Sprintf("%s(%s)", fn.Name(), strings.Join(argExprs, ", "))
	}
	nres := sig.Results().Len()
	var lhs []string
	for i := 0; i < nres; i++ {
		lhs = append(lhs, fmt.Sprintf("r%d", i))
	}
	var src strings.Builder
	fmt.Fprintf(&src, "package %s\n\nimport (\n\t\"fmt\"\n\t\"testing\"\n", fn.Pkg.Pkg.Name())
	for path, name := range rb.imports {
		fmt.Fprintf(&src, "\t%s %q\n", name, path)
	}
	src.WriteString(")\n\n")
	src.WriteString("func govcShow(v interface{}) string {\n\tswitch x := v.(type) {\n\tcase nil:\n\t\treturn \"nil\"\n\tcase error:\n\t\treturn \"error:\" + x.Error()\n\tcase []byte:\n\t\tif x == nil {\n\t\t\treturn \"nil\"\n\t\t}\n\t\treturn fmt.Sprintf(\"bytes:%x\", x)\n\t}\n\treturn fmt.Sprintf(\"%v\", v)\n}\n\n")
	src.WriteString("func TestGovcReplay(t *testing.T) {\n")
	for _, s := range rb.stmts {
		src.WriteString("\t" + s + "\n")
	}
	src.WriteString("\tdefer func() {\n\t\tif r := recover(); r != nil {\n\t\t\tfmt.Printf(\"GOVC-REPLAY panic: %v\\n\", r)\n\t\t}\n\t}()\n")
	if nres > 0 {
		fmt.Fprintf(&src, "\t%s := %s\n", strings.Join(lhs, ", "), call)
		for i := range lhs {
			fmt.Fprintf(&src, "\tfmt.Printf(\"GOVC-RESULT %d %%s\\n\", govcShow(r%d))\n", i, i)
		}
	} else {
		fmt.Fprintf(&src, "\t%s\n", call)
	}
	src.WriteString("\tfmt.Println(\"GOVC-RETURNED\")\n}\n")
	pkgDir := vc.e.pkgDir[fn.Pkg.Pkg.Path()]
	rel, _ := filepath.Rel(repo, pkgDir)
	tags := loadConfigs[vc.e.config].Tags
	rec["replay_test_source"] = src.String()
	rec["replay_package_dir"] = rel
	rec["replay_tags"] = tags
	out, err := runOverlayTest(repo, rel, src.String(), tags, loadConfigs[vc.e.config].Env)
	if len(out) > 6000 {
		out = out[:6000]
	}
	rec["replay_output"] = out
	if err != nil && !strings.Contains(out, "GOVC-") {
		rec["replay_note"] = "replay test did not run: " + err.Error()
		return false
	}
	panicked := strings.Contains(out, "GOVC-REPLAY panic:") || strings.Contains(out, "panic:")
	kind := or.Ob.Kind
	switch {
	case strings.HasPrefix(kind, "safety") || strings.HasPrefix(kind, "pre.nonnil"):
		rec["replay_verdict"] = fmt.Sprintf("real code panicked on the model's inputs: %v", panicked)
		return panicked
	case strings.HasPrefix(kind, "post"):
		// compare the model's predicted results with the real results
		return vc.compareResults(rb, or, out, rec)
	}
	rec["replay_note"] = "obligation kind has no runtime observable; model inputs recorded"
	return false
}

// compareResults: fix inputs (already fixed in rb), ask the model for the result values at the failing
// return, and compare with what the real code returned.
func (vc *VC) compareResults(rb *replayBuilder, or *ObResult, out string, rec map[string]interface{}) bool {
	ret := vc.returnFor(or.Ob)
	if ret == nil {
		rec["replay_note"] = "no return instruction recorded for this obligation"
		return false
	}
	real := map[int]string{}
	for _, ln := range strings.Split(out, "\n") {
		if strings.HasPrefix(ln, "GOVC-RESULT ") {
			var i int
			rest := strings.TrimPrefix(ln, "GOVC-RESULT ")
			sp := strings.IndexByte(rest, ' ')
			if sp > 0 {
				fmt.Sscanf(rest[:sp], "%d", &i)
				real[i] = rest[sp+1:]
			}
		}
	}
	if len(real) == 0 {
		rec["replay_note"] = "real code returned no comparable results"
		return false
	}
	agree := 0
	var notes []string
	for i, r := range ret.Results {
		genMu.Lock()
		v := vc.vals[r]
		if v == nil {
			if c, ok := r.(*ssa.Const); ok {
				func() {
					defer func() { recover() }()
					v = vc.constVal(c, vc.heap0)
				}()
			}
		}
		genMu.Unlock()
		if v == nil {
			continue
		}
		switch v.K {
		case KBV, KBool:
			m, ok := rb.query([]string{v.C[0]})
			if !ok {
				continue
			}
			n, _ := smtValToBig(m[v.C[0]])
			want := ""
			if v.K == KBool {
				want = m[v.C[0]]
			} else {
				if v.Signed {
					n = toSigned(n, v.W)
				}
				want = n.String()
			}
			if real[i] == want {
				agree++
				notes = append(notes, fmt.Sprintf("result %d: model %s == real %s", i, want, real[i]))
			} else {
				notes = append(notes, fmt.Sprintf("result %d: model %s != real %s", i, want, real[i]))
				rec["replay_compare"] = notes
				return false
			}
		case KIface:
			m, ok := rb.query([]string{v.C[0]})
			if !ok {
				continue
			}
			n, _ := smtValToBig(m[v.C[0]])
			isNil := n.Sign() == 0
			realNil := real[i] == "nil" || real[i] == "<nil>"
			if isNil == realNil {
				agree++
				notes = append(notes, fmt.Sprintf("result %d: nil-ness agrees (%v)", i, isNil))
			} else {
				notes = append(notes, fmt.Sprintf("result %d: model nil=%v, real %s", i, isNil, real[i]))
				rec["replay_compare"] = notes
				return false
			}
		}
	}
	rec["replay_compare"] = notes
	if agree > 0 {
		rec["replay_verdict"] = "the real execution returned exactly the values of the violating model"
		return true
	}
	return false
}

func (vc *VC) returnFor(ob *Obligation) *ssa.Return {
	return vc.obReturn[ob]
}

func runOverlayTest(repo, relDir, src, tags string, extraEnv []string) (string, error) {
	tmp, err := os.MkdirTemp("", "govc-ov")
	if err != nil {
		return "", err
	}
	defer os.RemoveAll(tmp)
	testFile := filepath.Join(tmp, "zz_govc_replay_test.go")
	if err := os.WriteFile(testFile, []byte(src), 0o644); err != nil {
		return "", err
	}
	ov := map[string]map[string]string{"Replace": {filepath.Join(repo, relDir, "zz_govc_replay_test.go"): testFile}}
	ovData, _ := json.Marshal(ov)
	ovFile := filepath.Join(tmp, "ov.json")
	os.WriteFile(ovFile, ovData, 0o644)
	ctx, cancel := context.WithTimeout(context.Background(), 180*time.Second)
	defer cancel()
	args := []string{"test", "-overlay", ovFile, "-vet=off", "-count=1", "-timeout", "60s", "-run", "^TestGovcReplay$", "-v"}
	if tags != "" {
		args = append(args, "-tags", tags)
	}
	args = append(args, "./"+relDir)
	cmd := exec.CommandContext(ctx, "go", args...)
	cmd.Dir = repo
	cmd.Env = append(os.Environ(), "GOFLAGS=-mod=mod", "GOPROXY=off", "GOSUMDB=off", "GOTOOLCHAIN=local")
	for _, e := range extraEnv {
		if !strings.HasPrefix(e, "GOARCH=") { // replays run on the host architecture
			cmd.Env = append(cmd.Env, e)
		}
	}
	var buf bytes.Buffer
	cmd.Stdout = &buf
	cmd.Stderr = &buf
	err = cmd.Run()
	return buf.String(), err
}

package main

// Integer mode ("mode int"): Go integers are SMT Ints with explicit wrap-around. Used for multi-limb
// arithmetic, where the proof is linear integer arithmetic over limb and product atoms. Bit tricks are
// recognised as idioms; every idiom whose validity needs a side condition emits that side condition as
// an obligation (kind idiom.*). Anything unrecognised becomes an uninterpreted function with range
// constraints (sound, possibly too weak to prove the goal).

import (
	"fmt"
	"go/token"
	"go/types"
	"math/big"
	"sort"
	"strings"

	"golang.org/x/tools/go/ssa"
)

func pow2(k int) *big.Int { return new(big.Int).Lsh(big.NewInt(1), uint(k)) }

func (vc *VC) declUF(name, sig string) {
	if !vc.trusted["decl:"+name] {
		vc.trusted["decl:"+name] = true
		vc.decls = append(vc.decls, fmt.Sprintf("(declare-fun %s %s)", name, sig))
	}
}

// prodTerm: the product of two integer terms; linear when one is a numeral, otherwise an application of the
// uninterpreted, commutative (by argument ordering) symbol prod with range facts.
func (vc *VC) prodTerm(x, y string) string { return vc.prodTermS(x, y, false) }

// prodTermS: nonneg says both operands are known to be non-negative (unsigned limbs), which licenses the
// linear bounds 0 <= prod(x,y) <= (2^64-1)*x.
func (vc *VC) prodTermS(x, y string, nonneg bool) string {
	if _, ok := intLitBig(x); ok {
		return app("*", x, y)
	}
	if _, ok := intLitBig(y); ok {
		return app("*", y, x)
	}
	if y < x {
		x, y = y, x
	}
	vc.declUF("prod", "(Int Int) Int")
	t := app("prod", x, y)
	if strings.Contains(t, "!") {
		return t // under a binder: no top-level side facts
	}
	if nonneg && !vc.trusted["prodfact:"+t] {
		vc.trusted["prodfact:"+t] = true
		m1 := new(big.Int).Sub(pow2(64), big.NewInt(1)).String()
		vc.assume(sAnd(app("<=", "0", t), app("<=", t, app("*", m1, x)), app("<=", t, app("*", m1, y))))
	}
	if !vc.trusted["prodconst:"+t] {
		vc.trusted["prodconst:"+t] = true
		// an operand that equals a numeral makes the product linear (0, 1 and the 64-bit constants of the
		// constant tables this VC refers to)
		nums := []string{"0", "1"}
		for n := range vc.knownNumerals {
			nums = append(nums, n)
		}
		sort.Strings(nums)
		if len(nums) > 24 {
			nums = nums[:24]
		}
		for _, c := range nums {
			vc.assume(sImp(sEq(y, c), sEq(t, app("*", c, x))))
			vc.assume(sImp(sEq(x, c), sEq(t, app("*", c, y))))
		}
	}
	if x != y && !vc.trusted["prodcomm:"+t] {
		vc.trusted["prodcomm:"+t] = true
		vc.assume(sEq(t, app("prod", y, x))) // commutativity instance
	}
	return t
}

func (vc *VC) bitVal(t string, w int, signed bool, rt types.Type) *Val {
	v := vc.bv(t, w, signed, rt)
	v.Bit = t
	return v
}

func contiguousMask(k *big.Int) (lo, hi int, ok bool) {
	if k.Sign() <= 0 {
		return 0, 0, false
	}
	lo = int(k.TrailingZeroBits())
	hi = k.BitLen()
	want := new(big.Int).Sub(pow2(hi), pow2(lo))
	return lo, hi, want.Cmp(k) == 0
}

func (vc *VC) andConst(x *Val, k *big.Int, rt types.Type) *Val {
	w, s := x.W, x.Signed
	if k.Sign() == 0 {
		return vc.bv("0", w, s, rt)
	}
	if x.MaskOf != "" {
		return vc.bv(sIte(sEq(x.MaskOf, "1"), k.String(), "0"), w, s, rt)
	}
	if lo, hi, ok := contiguousMask(k); ok && !s {
		if hi >= w && lo == 0 {
			return vc.bv(x.C[0], w, s, rt)
		}
		t := x.C[0]
		if hi < w {
			t = app("mod", t, pow2(hi).String())
		}
		if lo > 0 {
			t = app("-", t, app("mod", x.C[0], pow2(lo).String()))
		}
		r := vc.bv(t, w, s, rt)
		if lo == 0 && hi == 1 {
			r.Bit = t
		}
		r.LowZeros = lo
		return r
	}
	return nil
}

func (vc *VC) ufBitop(op token.Token, a, b *Val, rt types.Type) *Val {
	fn := fmt.Sprintf("bitop_%s_%d", sanitize(op.String()), a.W)
	vc.declUF(fn, "(Int Int) Int")
	t := app(fn, a.C[0], b.C[0])
	if strings.Contains(t, "!") {
		return vc.bv(t, a.W, a.Signed, rt) // under a binder: no top-level side facts
	}
	vc.note("int mode: operator %s abstracted as an uninterpreted function with boundary facts", op)
	r := vc.define("bitop", "Int", t)
	vc.assume(vc.intRange(r, a.W, a.Signed))
	if !a.Signed {
		x, y := a.C[0], b.C[0]
		ones := new(big.Int).Sub(pow2(a.W), big.NewInt(1)).String()
		switch op {
		case token.OR:
			vc.assume(sAnd(app("<=", x, r), app("<=", y, r), app("<=", r, app("+", x, y)),
				sImp(sEq(x, "0"), sEq(r, y)), sImp(sEq(y, "0"), sEq(r, x)),
				sImp(sEq(x, ones), sEq(r, ones)), sImp(sEq(y, ones), sEq(r, ones))))
		case token.AND:
			vc.assume(sAnd(app("<=", r, x), app("<=", r, y),
				sImp(sEq(x, "0"), sEq(r, "0")), sImp(sEq(y, "0"), sEq(r, "0")),
				sImp(sEq(x, ones), sEq(r, y)), sImp(sEq(y, ones), sEq(r, x))))
		case token.AND_NOT:
			vc.assume(sAnd(app("<=", r, x),
				sImp(sEq(y, "0"), sEq(r, x)), sImp(sEq(y, ones), sEq(r, "0")), sImp(sEq(x, "0"), sEq(r, "0"))))
		case token.XOR:
			vc.assume(sAnd(sImp(sEq(x, "0"), sEq(r, y)), sImp(sEq(y, "0"), sEq(r, x)), sImp(sEq(x, y), sEq(r, "0")),
				sImp(sEq(y, ones), sEq(r, app("-", ones, x))), sImp(sEq(x, ones), sEq(r, app("-", ones, y)))))
		}
	}
	return vc.bv(r, a.W, a.Signed, rt)
}

func (vc *VC) binopInt(op token.Token, a, b *Val, rt types.Type) *Val {
	x, y := a.C[0], b.C[0]
	w, s := a.W, a.Signed
	ka, aLit := intLitBig(x)
	kb, bLit := intLitBig(y)
	switch op {
	case token.ADD:
		return vc.wrapInt(app("+", x, y), w, s, rt)
	case token.SUB:
		return vc.wrapInt(app("-", x, y), w, s, rt)
	case token.MUL:
		return vc.wrapInt(vc.prodTermS(x, y, !s && !b.Signed), w, s, rt)
	case token.EQL:
		return vc.boolVal(sEq(x, y))
	case token.NEQ:
		return vc.boolVal(sNot(sEq(x, y)))
	case token.LSS:
		return vc.boolVal(app("<", x, y))
	case token.LEQ:
		return vc.boolVal(app("<=", x, y))
	case token.GTR:
		return vc.boolVal(app(">", x, y))
	case token.GEQ:
		return vc.boolVal(app(">=", x, y))
	case token.SHL:
		if bLit && kb.IsInt64() {
			n := int(kb.Int64())
			if n >= w {
				return vc.bv("0", w, s, rt)
			}
			r := vc.wrapInt(app("*", x, pow2(n).String()), w, s, rt)
			r.LowZeros = n + a.LowZeros
			if r.LowZeros > w {
				r.LowZeros = w
			}
			return r
		}
		if b.Bit != "" {
			dbl := vc.wrapInt(app("*", "2", x), w, s, rt)
			return vc.bv(sIte(sEq(b.Bit, "1"), dbl.C[0], x), w, s, rt)
		}
	case token.SHR:
		if bLit && kb.IsInt64() {
			n := int(kb.Int64())
			if n >= w && !s {
				return vc.bv("0", w, s, rt)
			}
			if n >= w {
				n = w - 1
			}
			if n == w-1 && !s {
				if a.NegOrOf != "" {
					return vc.bitVal(sIte(sEq(a.NegOrOf, "0"), "0", "1"), w, s, rt)
				}
				t := vc.define("topbit", "Int", app("div", x, pow2(n).String()))
				return vc.bitVal(t, w, s, rt)
			}
			return vc.bv(app("div", x, pow2(n).String()), w, s, rt)
		}
	case token.AND:
		if aLit {
			a, b, x, y, ka, kb, aLit, bLit = b, a, y, x, kb, ka, bLit, aLit
		}
		if bLit {
			k := new(big.Int).Set(kb)
			if k.Sign() < 0 {
				k.Add(k, pow2(w))
			}
			if r := vc.andConst(a, k, rt); r != nil {
				return r
			}
		}
		if b.MaskOf != "" {
			return vc.bv(sIte(sEq(b.MaskOf, "1"), x, "0"), w, s, rt)
		}
		if a.MaskOf != "" {
			return vc.bv(sIte(sEq(a.MaskOf, "1"), y, "0"), w, s, rt)
		}
		if a.Bit != "" && b.Bit != "" {
			return vc.bitVal(sIte(sAnd(sEq(a.Bit, "1"), sEq(b.Bit, "1")), "1", "0"), w, s, rt)
		}
	case token.AND_NOT:
		if bLit && !s {
			k := new(big.Int).Sub(new(big.Int).Sub(pow2(w), big.NewInt(1)), kb) // ^k
			if r := vc.andConst(a, k, rt); r != nil {
				return r
			}
		}
		if b.MaskOf != "" {
			return vc.bv(sIte(sEq(b.MaskOf, "1"), "0", x), w, s, rt)
		}
	case token.OR:
		if a.LowZeros > 0 || b.LowZeros > 0 {
			hi, lo := a, b
			if b.LowZeros > a.LowZeros {
				hi, lo = b, a
			}
			ob := vc.oblige("idiom.or-disjoint", vc.cur.pc, app("<", lo.C[0], pow2(hi.LowZeros).String()), token.NoPos,
				fmt.Sprintf("x | y treated as x + y: y < 2^%d because x is a multiple of 2^%d", hi.LowZeros, hi.LowZeros))
			ob.Scaffold = true
			return vc.bv(app("+", x, y), w, s, rt)
		}
		if a.Bit != "" && b.Bit != "" {
			return vc.bitVal(sIte(sOr(sEq(a.Bit, "1"), sEq(b.Bit, "1")), "1", "0"), w, s, rt)
		}
		if a.NegOf != "" && a.NegOf == y {
			r := vc.ufBitop(op, a, b, rt)
			r.NegOrOf = y
			return r
		}
		if b.NegOf != "" && b.NegOf == x {
			r := vc.ufBitop(op, a, b, rt)
			r.NegOrOf = x
			return r
		}
	case token.XOR:
		if a.Bit != "" && b.Bit != "" {
			return vc.bitVal(sIte(sEq(a.Bit, b.Bit), "0", "1"), w, s, rt)
		}
		if a.Bit != "" && bLit && kb.Cmp(big.NewInt(1)) == 0 {
			return vc.bitVal(app("-", "1", a.Bit), w, s, rt)
		}
	case token.QUO:
		if !s {
			return vc.bv(app("div", x, y), w, s, rt)
		}
		if bLit && kb.Sign() > 0 {
			// Go truncates toward zero
			return vc.bv(sIte(app(">=", x, "0"), app("div", x, y), app("-", app("div", app("-", x), y))), w, s, rt)
		}
	case token.REM:
		if !s {
			return vc.bv(app("mod", x, y), w, s, rt)
		}
		if bLit && kb.Sign() > 0 {
			return vc.bv(sIte(app(">=", x, "0"), app("mod", x, y), app("-", app("mod", app("-", x), y))), w, s, rt)
		}
	}
	_ = ka
	return vc.ufBitop(op, a, b, rt)
}

func (vc *VC) negInt(a *Val, rt types.Type) *Val {
	if a.Bit != "" && !a.Signed {
		m1 := new(big.Int).Sub(pow2(a.W), big.NewInt(1)).String()
		r := vc.bv(app("*", m1, a.Bit), a.W, a.Signed, rt)
		r.MaskOf = a.Bit
		return r
	}
	r := vc.wrapInt(app("-", a.C[0]), a.W, a.Signed, rt)
	r.NegOf = a.C[0]
	return r
}

// ---------- native models of math/bits and encoding/binary (both modes) ----------

func hasExtract(call *ssa.Call, idx int) bool {
	refs := call.Referrers()
	if refs == nil {
		return false
	}
	for _, r := range *refs {
		if ex, ok := r.(*ssa.Extract); ok && ex.Index == idx {
			// an extract that nothing uses (blank assignment) does not count
			if er := ex.Referrers(); er != nil {
				for _, u := range *er {
					if _, isDbg := u.(*ssa.DebugRef); !isDbg {
						return true
					}
				}
			}
		}
	}
	return false
}

func (e *Engine) builtinModel(vc *VC, ins *ssa.Call, f *ssa.Function, args []*Val) bool {
	if f.Pkg == nil {
		return false
	}
	path := f.Pkg.Pkg.Path()
	name := f.Name()
	h := vc.cur.heap
	u64 := types.Typ[types.Uint64]
	tuple2 := func(a, b *Val) {
		vc.vals[ins] = &Val{K: KTuple, T: ins.Type(), Elems: []*Val{a, b}}
	}
	discarded := func(what string, t string, zero string) {
		if !hasExtract(ins, map[string]int{"carry": 1, "borrow": 1, "high word": 0}[what]) {
			if vc.c != nil && vc.c.Wraps {
				return
			}
			vc.oblige("arith.discarded", vc.cur.pc, sEq(t, zero), ins.Pos(), "discarded "+what+" of bits."+name+" is zero")
		}
	}
	switch path {
	case "math/bits":
		switch name {
		case "Add64", "Sub64":
			x, y, c := args[0].C[0], args[1].C[0], args[2].C[0]
			if vc.intMode {
				m := pow2(64).String()
				r := vc.fresh("limb", "Int")
				co := vc.fresh("carry", "Int")
				if name == "Add64" {
					vc.assume(sEq(app("+", r, app("*", m, co)), app("+", x, y, c)))
				} else {
					vc.assume(sEq(app("-", r, app("*", m, co)), app("-", app("-", x, y), c)))
				}
				vc.assume(sAnd(vc.intRange(r, 64, false), sOr(sEq(co, "0"), sEq(co, "1"))))
				cv := vc.bitVal(co, 64, false, u64)
				tuple2(vc.bv(r, 64, false, u64), cv)
				discarded(map[string]string{"Add64": "carry", "Sub64": "borrow"}[name], co, "0")
				return true
			}
			z := func(t string) string { return bvExtend(false, 64, 65, t) }
			var t string
			if name == "Add64" {
				t = bvBin("bvadd", bvBin("bvadd", z(x), z(y)), z(c))
			} else {
				t = bvBin("bvsub", bvBin("bvsub", z(x), z(y)), z(c))
			}
			t = vc.define("wide", bvSort(65), t)
			co := vc.define("carry", bvSort(64), bvExtend(false, 1, 64, bvExtract(64, 64, t)))
			tuple2(vc.bv(vc.define("limb", bvSort(64), bvExtract(63, 0, t)), 64, false, u64), vc.bv(co, 64, false, u64))
			discarded(map[string]string{"Add64": "carry", "Sub64": "borrow"}[name], co, bvLitI(64, 0))
			return true
		case "Mul64":
			x, y := args[0].C[0], args[1].C[0]
			if vc.intMode {
				m := pow2(64).String()
				hi := vc.fresh("hi", "Int")
				lo := vc.fresh("lo", "Int")
				vc.assume(sEq(app("+", app("*", m, hi), lo), vc.prodTermS(x, y, true)))
				vc.assume(sAnd(vc.intRange(hi, 64, false), vc.intRange(lo, 64, false)))
				tuple2(vc.bv(hi, 64, false, u64), vc.bv(lo, 64, false, u64))
				discarded("high word", hi, "0")
				return true
			}
			t := vc.define("wide", bvSort(128), bvBin("bvmul", bvExtend(false, 64, 128, x), bvExtend(false, 64, 128, y)))
			hi := vc.define("hi", bvSort(64), bvExtract(127, 64, t))
			tuple2(vc.bv(hi, 64, false, u64), vc.bv(vc.define("lo", bvSort(64), bvExtract(63, 0, t)), 64, false, u64))
			discarded("high word", hi, bvLitI(64, 0))
			return true
		}
	case "encoding/binary":
		recv := ""
		if f.Signature.Recv() != nil {
			recv = f.Signature.Recv().Type().String()
		}
		little := strings.HasSuffix(recv, "littleEndian")
		if !little && !strings.HasSuffix(recv, "bigEndian") {
			return false
		}
		var nb int
		switch strings.TrimPrefix(strings.TrimPrefix(name, "Put"), "Uint") {
		case "16":
			nb = 2
		case "32":
			nb = 4
		case "64":
			nb = 8
		default:
			return false
		}
		if !strings.HasPrefix(name, "Uint") && !strings.HasPrefix(name, "PutUint") {
			return false
		}
		b := args[1]
		vc.oblige("safety.index", vc.cur.pc, app("bvuge", b.C[2], off64(int64(nb))), ins.Pos(), fmt.Sprintf("binary.%s needs len(b) >= %d", name, nb))
		cell := func(i int) string { return bvBin("bvadd", b.C[1], off64(int64(i))) }
		pos := func(i int) int { // byte i of the buffer holds bits [8*pos, 8*pos+8)
			if little {
				return i
			}
			return nb - 1 - i
		}
		w := nb * 8
		rt := ins.Type()
		if strings.HasPrefix(name, "Uint") {
			if vc.intMode {
				var parts []string
				for i := 0; i < nb; i++ {
					bt := sel(sel(h.m["bv8"], b.C[0]), cell(i))
					vc.assume(vc.intRange(bt, 8, false))
					parts = append(parts, app("*", pow2(8*pos(i)).String(), bt))
				}
				vc.vals[ins] = vc.bv(vc.define("le", "Int", app("+", parts...)), w, false, rt)
				return true
			}
			t := bvLitI(w, 0)
			for i := 0; i < nb; i++ {
				bt := bvExtend(false, 8, w, sel(sel(h.m["bv8"], b.C[0]), cell(i)))
				t = bvBin("bvor", t, bvBin("bvshl", bt, bvLitI(w, int64(8*pos(i)))))
			}
			vc.vals[ins] = vc.bv(vc.define("le", bvSort(w), t), w, false, rt)
			return true
		}
		v := args[2]
		vc.checkFrameAt(b.C[0], b.C[1], ins.Pos())
		bl := layoutOf(types.Typ[types.Uint8])
		var ibytes []string
		if vc.intMode {
			// base-256 digits of v as fresh variables: sum(d_i * 256^pos) = v, 0 <= d_i < 256 (unique decomposition)
			var parts []string
			for i := 0; i < nb; i++ {
				d := vc.fresh("digit", "Int")
				vc.assume(vc.intRange(d, 8, false))
				ibytes = append(ibytes, d)
				parts = append(parts, app("*", pow2(8*pos(i)).String(), d))
			}
			vc.assume(sEq(app("+", parts...), v.C[0]))
		}
		for i := 0; i < nb; i++ {
			var bt string
			if vc.intMode {
				bt = ibytes[i]
			} else {
				bt = bvExtract(8*pos(i)+7, 8*pos(i), v.C[0])
			}
			vc.storeScalar(h, bl, b.C[0], cell(i), vc.bv(bt, 8, false, types.Typ[types.Uint8]))
			if vc.ringMode && i == 0 {
				h.m["fe"] = vc.define("H", heapSort("fe"), sto(h.m["fe"], b.C[0], vc.fresh("A", innerSort("fe"))))
			}
		}
		vc.vals[ins] = &Val{K: KUnit}
		return true
	}
	return false
}

package main

import (
	"fmt"
	"go/token"
	"go/types"

	"golang.org/x/tools/go/ssa"
)

func (vc *VC) stride(t types.Type) int64 { return layoutOf(t).N }

func off64(n int64) string { return bvLitI(64, n) }

// idx64 converts an integer index value to a 64-bit offset term (Go semantics: sign/zero extension).
func (vc *VC) idx64(v *Val) string {
	if v.K != KBV {
		panic("index is not an integer")
	}
	if vc.intMode {
		if n, ok := intLitBig(v.C[0]); ok {
			return bvLit(64, n)
		}
		t := app("(_ int2bv 64)", v.C[0])
		return t
	}
	t := bvConv(v.C[0], v.W, v.Signed, 64)
	if _, _, lit := asLit(t); !lit {
		found := false
		for _, x := range vc.indexTerms {
			if x == t {
				found = true
			}
		}
		if !found {
			vc.indexTerms = append(vc.indexTerms, t)
		}
	}
	return t
}

func mulOff(i string, stride int64) string {
	if stride == 1 {
		return i
	}
	return bvBin("bvmul", i, off64(stride))
}

func (vc *VC) exec(rs *runState, ins ssa.Instruction) {
	pc := vc.cur.pc
	h := vc.cur.heap
	switch ins := ins.(type) {
	case *ssa.DebugRef:
		return
	case *ssa.Alloc:
		et := ins.Type().Underlying().(*types.Pointer).Elem()
		r := vc.allocObj(h, layoutOf(et))
		vc.vals[ins] = &Val{K: KPtr, T: ins.Type(), C: []string{r, off64(0)}}
		if allocIsPrivate(ins) && len(vc.privRefs) < 24 {
			vc.privRefs = append(vc.privRefs, r)
		}
	case *ssa.BinOp:
		a, b := vc.val(ins.X), vc.val(ins.Y)
		if ins.Op == token.QUO || ins.Op == token.REM {
			if a.K == KBV {
				vc.oblige("safety.div", pc, sNot(vc.isZero(b)), ins.Pos(), "division by zero")
			}
		}
		if (ins.Op == token.SHL || ins.Op == token.SHR) && b.K == KBV && b.Signed {
			vc.oblige("safety.shift", pc, vc.nonNeg(b), ins.Pos(), "negative shift count")
		}
		vc.bind(ins, vc.binop(ins.Op, a, b, ins.Type()))
	case *ssa.UnOp:
		switch ins.Op {
		case token.MUL:
			if g, ok := ins.X.(*ssa.Global); ok {
				// a never-reassigned function-valued global evaluates to the function it was initialised with
				vc.e.scanGlobals()
				if gi := vc.e.constGlob[g]; gi != nil && gi.constant && gi.fn != nil {
					vc.vals[ins] = vc.val(gi.fn)
					return
				}
			}
			p := vc.val(ins.X)
			vc.oblige("safety.nil", pc, sNot(sEq(p.C[0], "0")), ins.Pos(), "nil pointer dereference")
			et := ins.Type()
			v := vc.load(h, layoutOf(et), et, p.C[0], p.C[1])
			if v.K == KAgg {
				v.H = h.clone()
				vc.vals[ins] = v
			} else {
				vc.bind(ins, v)
				vc.assumeLoaded(vc.vals[ins], h)
			}
		case token.ARROW:
			vc.note("channel receive (outside subset)")
			vc.vals[ins] = vc.symVal("recv", ins.Type(), h)
		default:
			vc.bind(ins, vc.unop(ins.Op, vc.val(ins.X), ins.Type()))
		}
	case *ssa.ChangeType:
		x := *vc.val(ins.X)
		x.T = ins.Type()
		vc.vals[ins] = &x
	case *ssa.ChangeInterface:
		x := *vc.val(ins.X)
		x.T = ins.Type()
		vc.vals[ins] = &x
	case *ssa.Convert:
		vc.execConvert(ins, ins.X, ins.Type())
	case *ssa.MultiConvert:
		vc.execConvert(ins, ins.X, ins.Type())
	case *ssa.SliceToArrayPointer:
		s := vc.val(ins.X)
		at := ins.Type().Underlying().(*types.Pointer).Elem().Underlying().(*types.Array)
		vc.oblige("safety.slice2array", pc, app("bvuge", s.C[2], off64(at.Len())), ins.Pos(), "slice to array pointer conversion: length")
		vc.vals[ins] = &Val{K: KPtr, T: ins.Type(), C: []string{s.C[0], s.C[1]}}
	case *ssa.MakeInterface:
		vc.execMakeInterface(ins)
	case *ssa.MakeClosure:
		vc.note("closure creation abstracted")
		for _, b := range ins.Bindings {
			vc.escape(vc.val(b))
		}
		vc.vals[ins] = &Val{K: KFunc, T: ins.Type(), C: []string{fmt.Sprint(vc.e.funcID(ins.Fn.(*ssa.Function)))}}
	case *ssa.MakeMap:
		id := vc.fresh("map", "Int")
		vc.assume(app("<", "0", id))
		vc.vals[ins] = &Val{K: KMap, T: ins.Type(), C: []string{id}}
	case *ssa.MakeChan:
		vc.note("channel (outside subset)")
		vc.vals[ins] = &Val{K: KChan, T: ins.Type(), C: []string{vc.fresh("chan", "Int")}}
	case *ssa.MakeSlice:
		ln, cp := vc.val(ins.Len), vc.val(ins.Cap)
		et := ins.Type().Underlying().(*types.Slice).Elem()
		l64, c64 := vc.idx64(ln), vc.idx64(cp)
		st := vc.stride(et)
		lim := int64(1) << 46
		if st > 0 {
			lim = lim / st
		}
		vc.oblige("safety.makeslice", pc, sAnd(app("bvule", l64, c64), app("bvule", c64, off64(lim))), ins.Pos(), "make: 0 <= len <= cap <= limit")
		r := vc.allocObj(h, layoutOf(et))
		vc.vals[ins] = &Val{K: KSlice, T: ins.Type(), C: []string{r, off64(0), l64, c64}}
		vc.bind(ins, vc.vals[ins])
	case *ssa.Slice:
		vc.execSlice(ins)
	case *ssa.FieldAddr:
		p := vc.val(ins.X)
		vc.oblige("safety.nil", pc, sNot(sEq(p.C[0], "0")), ins.Pos(), "nil pointer dereference (field address)")
		st := ins.X.Type().Underlying().(*types.Pointer).Elem()
		l := layoutOf(st)
		vc.bind(ins, &Val{K: KPtr, T: ins.Type(), C: []string{p.C[0], bvBin("bvadd", p.C[1], off64(l.Fields[ins.Field]))}})
	case *ssa.Field:
		a := vc.val(ins.X)
		l := layoutOf(ins.X.Type())
		fl := l.FL[ins.Field]
		v := vc.load(a.H, fl, ins.Type(), a.C[0], bvBin("bvadd", a.C[1], off64(l.Fields[ins.Field])))
		if v.K == KAgg {
			vc.vals[ins] = v
		} else {
			vc.bind(ins, v)
			vc.assumeLoaded(vc.vals[ins], a.H)
		}
	case *ssa.IndexAddr:
		x := vc.val(ins.X)
		i := vc.idx64(vc.val(ins.Index))
		switch xt := ins.X.Type().Underlying().(type) {
		case *types.Pointer:
			at := xt.Elem().Underlying().(*types.Array)
			vc.oblige("safety.nil", pc, sNot(sEq(x.C[0], "0")), ins.Pos(), "nil pointer dereference (array index)")
			vc.oblige("safety.index", pc, bvCmp("bvult", i, off64(at.Len())), ins.Pos(), fmt.Sprintf("index in range of [%d]", at.Len()))
			vc.bind(ins, &Val{K: KPtr, T: ins.Type(), C: []string{x.C[0], bvBin("bvadd", x.C[1], mulOff(i, vc.stride(at.Elem())))}})
		case *types.Slice:
			vc.oblige("safety.index", pc, bvCmp("bvult", i, x.C[2]), ins.Pos(), "index in range of slice length")
			vc.bind(ins, &Val{K: KPtr, T: ins.Type(), C: []string{x.C[0], bvBin("bvadd", x.C[1], mulOff(i, vc.stride(xt.Elem())))}})
		default:
			panic("IndexAddr on " + xt.String())
		}
	case *ssa.Index:
		x := vc.val(ins.X)
		i := vc.idx64(vc.val(ins.Index))
		switch xt := ins.X.Type().Underlying().(type) {
		case *types.Array:
			vc.oblige("safety.index", pc, bvCmp("bvult", i, off64(xt.Len())), ins.Pos(), fmt.Sprintf("index in range of [%d]", xt.Len()))
			el := layoutOf(xt.Elem())
			v := vc.load(x.H, el, ins.Type(), x.C[0], bvBin("bvadd", x.C[1], mulOff(i, el.N)))
			if v.K == KAgg {
				vc.vals[ins] = v
			} else {
				vc.bind(ins, v)
			}
		case *types.Basic: // string
			vc.oblige("safety.index", pc, bvCmp("bvult", i, x.C[2]), ins.Pos(), "index in range of string length")
			vc.bind(ins, vc.bv(sel(sel(h.m["bv8"], x.C[0]), bvBin("bvadd", x.C[1], i)), 8, false, ins.Type()))
		default:
			panic("Index on " + xt.String())
		}
	case *ssa.Lookup:
		if _, ok := ins.X.Type().Underlying().(*types.Map); ok {
			vc.note("map lookup abstracted")
			if ins.CommaOk {
				tu := ins.Type().(*types.Tuple)
				vc.vals[ins] = &Val{K: KTuple, T: tu, Elems: []*Val{vc.symVal("mapv", tu.At(0).Type(), h), vc.boolVal(vc.fresh("mapok", "Bool"))}}
			} else {
				vc.vals[ins] = vc.symVal("mapv", ins.Type(), h)
			}
			return
		}
		x := vc.val(ins.X)
		i := vc.idx64(vc.val(ins.Index))
		vc.oblige("safety.index", pc, bvCmp("bvult", i, x.C[2]), ins.Pos(), "index in range of string length")
		vc.bind(ins, vc.bv(sel(sel(h.m["bv8"], x.C[0]), bvBin("bvadd", x.C[1], i)), 8, false, ins.Type()))
	case *ssa.Extract:
		t := vc.val(ins.Tuple)
		vc.vals[ins] = t.Elems[ins.Index]
	case *ssa.TypeAssert:
		vc.execTypeAssert(ins)
	case *ssa.Store:
		p := vc.val(ins.Addr)
		vc.oblige("safety.nil", pc, sNot(sEq(p.C[0], "0")), ins.Pos(), "nil pointer dereference (store)")
		vc.checkFrameAt(p.C[0], p.C[1], ins.Pos())
		v := vc.val(ins.Val)
		if v.K == KPtr && v.C[0] == "0" {
			if k, _, _ := scalarKind(ins.Val.Type()); k != KPtr {
				v = vc.zeroVal(ins.Val.Type(), h)
			}
		}
		vc.store(h, ins.Val.Type(), p.C[0], p.C[1], v)
	case *ssa.MapUpdate:
		vc.note("map update abstracted")
	case *ssa.Call:
		vc.execCall(ins)
		if vc.callHeaps == nil {
			vc.callHeaps = map[*ssa.Call]*Heap{}
		}
		if vc.cur != nil && vc.cur.heap != nil {
			vc.callHeaps[ins] = vc.cur.heap.clone()
		}
	case *ssa.Defer:
		vc.note("defer (outside subset; deferred call ignored)")
	case *ssa.RunDefers:
	case *ssa.Go:
		vc.note("go statement (outside subset)")
	case *ssa.Send:
		vc.note("channel send (outside subset)")
	case *ssa.Select:
		vc.note("select (outside subset)")
		vc.vals[ins] = vc.symVal("select", ins.Type(), h)
	case *ssa.Range:
		vc.note("range over map/string abstracted")
		vc.vals[ins] = &Val{K: KUnit}
	case *ssa.Next:
		tu := ins.Type().(*types.Tuple)
		v := &Val{K: KTuple, T: tu}
		for i := 0; i < tu.Len(); i++ {
			if _, bad := tu.At(i).Type().(*types.Basic); bad && tu.At(i).Type().(*types.Basic).Kind() == types.Invalid {
				v.Elems = append(v.Elems, &Val{K: KUnit})
				continue
			}
			v.Elems = append(v.Elems, vc.symVal("next", tu.At(i).Type(), h))
		}
		vc.vals[ins] = v
	case *ssa.Panic:
		vc.execPanic(ins)
	case *ssa.Return:
		vc.execReturn(ins)
	case *ssa.If:
		c := vc.val(ins.Cond).C[0]
		b := ins.Block()
		e0, e1 := sAnd(pc, c), sAnd(pc, sNot(c))
		if e0 != "false" && e0 != "true" {
			e0 = vc.define(fmt.Sprintf("e_%d_%d", b.Index, b.Succs[0].Index), "Bool", e0)
		}
		if e1 != "false" && e1 != "true" {
			e1 = vc.define(fmt.Sprintf("e_%d_%dn", b.Index, b.Succs[1].Index), "Bool", e1)
		}
		rs.edge[edgeKey{b, 0}] = e0
		rs.edge[edgeKey{b, 1}] = e1
	case *ssa.Jump:
		rs.edge[edgeKey{ins.Block(), 0}] = pc
	default:
		panic(fmt.Sprintf("unsupported instruction %T: %s", ins, ins))
	}
}

func (vc *VC) isZero(b *Val) string {
	if vc.intMode {
		return sEq(b.C[0], "0")
	}
	return sEq(b.C[0], bvLitI(b.W, 0))
}
func (vc *VC) nonNeg(b *Val) string {
	if vc.intMode {
		return app("<=", "0", b.C[0])
	}
	return bvCmp("bvsge", b.C[0], bvLitI(b.W, 0))
}

// assumeLoaded: well-formedness of reference-like values read from memory.
func (vc *VC) assumeLoaded(v *Val, h *Heap) {
	if vc.intMode && v.K == KBV {
		vc.assume(vc.intRange(v.C[0], v.W, v.Signed))
	}
	switch v.K {
	case KPtr, KSlice, KString, KIface:
		vc.assume(vc.wfTerm(v, h))
	}
}

func (vc *VC) escape(v *Val) {}

func (vc *VC) execConvert(ins ssa.Value, xv ssa.Value, to types.Type) {
	x := vc.val(xv)
	h := vc.cur.heap
	tk, tw, ts := scalarKind(to)
	switch {
	case x.K == KBV && tk == KBV:
		vc.bind(ins, vc.convInt(x, tw, ts, to))
	case x.K == KString && tk == KSlice, x.K == KSlice && tk == KString:
		// copy into a fresh object
		r := vc.allocObj(h, nil)
		n := x.C[2]
		nc := int64(-1)
		if lv, _, ok := asLit(n); ok && lv.IsInt64() {
			nc = lv.Int64()
		}
		vc.memcpy(h, r, off64(0), h.clone(), x.C[0], x.C[1], layoutOf(types.Typ[types.Uint8]), n, nc)
		if tk == KSlice {
			vc.vals[ins] = &Val{K: KSlice, T: to, C: []string{r, off64(0), n, n}}
		} else {
			vc.vals[ins] = &Val{K: KString, T: to, C: []string{r, off64(0), n}}
		}
	case x.K == KPtr && tk == KPtr:
		if isUnsafePtr(xv.Type()) || isUnsafePtr(to) {
			vc.note("unsafe.Pointer conversion (outside subset)")
		}
		nx := *x
		nx.T = to
		vc.vals[ins] = &nx
	case tk == KFloat || x.K == KFloat:
		vc.note("float conversion abstracted (outside subset)")
		vc.vals[ins] = vc.symVal("fconv", to, h)
	case x.K == KBV && tk == KString:
		vc.note("integer to string conversion abstracted")
		vc.vals[ins] = vc.symVal("i2s", to, h)
	case x.K == KBV && tk == KPtr, x.K == KPtr && tk == KBV:
		vc.note("uintptr/unsafe conversion (outside subset)")
		vc.vals[ins] = vc.symVal("unsafe", to, h)
	default:
		panic(fmt.Sprintf("convert %v -> %s unsupported", x, to))
	}
}

func isUnsafePtr(t types.Type) bool {
	b, ok := t.Underlying().(*types.Basic)
	return ok && b.Kind() == types.UnsafePointer
}

func (vc *VC) execMakeInterface(ins *ssa.MakeInterface) {
	x := vc.val(ins.X)
	tag := fmt.Sprint(vc.e.typeTag(ins.X.Type()))
	if vc.tagTypes == nil {
		vc.tagTypes = map[string]types.Type{}
	}
	vc.tagTypes[tag] = ins.X.Type()
	h := vc.cur.heap
	switch x.K {
	case KPtr:
		vc.vals[ins] = &Val{K: KIface, T: ins.Type(), C: []string{tag, x.C[0], x.C[1]}}
	case KBV:
		if vc.intMode {
			vc.vals[ins] = &Val{K: KIface, T: ins.Type(), C: []string{tag, "(- 1)", vc.fresh("boxed", offSort)}}
			return
		}
		vc.vals[ins] = &Val{K: KIface, T: ins.Type(), C: []string{tag, "(- 1)", bvConv(x.C[0], x.W, x.Signed, 64)}}
	case KBool:
		vc.vals[ins] = &Val{K: KIface, T: ins.Type(), C: []string{tag, "(- 1)", sIte(x.C[0], off64(1), off64(0))}}
	default:
		// box the value
		l := layoutOf(ins.X.Type())
		r := vc.allocObj(h, l)
		vc.store(h, ins.X.Type(), r, off64(0), x)
		vc.vals[ins] = &Val{K: KIface, T: ins.Type(), C: []string{tag, r, off64(0)}}
	}
}

func (vc *VC) execTypeAssert(ins *ssa.TypeAssert) {
	x := vc.val(ins.X)
	h := vc.cur.heap
	var ok string
	var v *Val
	if _, isIface := ins.AssertedType.Underlying().(*types.Interface); isIface {
		// interface-to-interface: decided by the dynamic type's method set (abstracted by an uninterpreted predicate)
		ok = sAnd(sNot(sEq(x.C[0], "0")), app(vc.e.implPred(vc, ins.AssertedType), x.C[0]))
		nv := *x
		nv.T = ins.AssertedType
		v = &nv
	} else {
		tag := fmt.Sprint(vc.e.typeTag(ins.AssertedType))
		ok = sEq(x.C[0], tag)
		k, w, s := scalarKind(ins.AssertedType)
		switch k {
		case KPtr:
			v = &Val{K: KPtr, T: ins.AssertedType, C: []string{x.C[1], x.C[2]}}
		case KBV:
			if vc.intMode {
				v = vc.symVal("unboxed", ins.AssertedType, h)
			} else {
				v = vc.bv(bvConv(x.C[2], 64, false, w), w, s, ins.AssertedType)
			}
		case KBool:
			v = vc.boolVal(sEq(x.C[2], off64(1)))
		default:
			v = vc.load(h, layoutOf(ins.AssertedType), ins.AssertedType, x.C[1], x.C[2])
			if v.K == KAgg {
				v.H = h.clone()
			}
		}
	}
	if ins.CommaOk {
		vc.vals[ins] = &Val{K: KTuple, T: ins.Type(), Elems: []*Val{v, vc.boolVal(ok)}}
		return
	}
	vc.oblige("safety.typeassert", vc.cur.pc, ok, ins.Pos(), "type assertion succeeds")
	vc.vals[ins] = v
}

func (vc *VC) execSlice(ins *ssa.Slice) {
	x := vc.val(ins.X)
	pc := vc.cur.pc
	var r, o, ln, cp string
	var stride int64 = 1
	isString := false
	switch xt := ins.X.Type().Underlying().(type) {
	case *types.Slice:
		r, o, ln, cp = x.C[0], x.C[1], x.C[2], x.C[3]
		stride = vc.stride(xt.Elem())
	case *types.Basic:
		r, o, ln, cp = x.C[0], x.C[1], x.C[2], x.C[2]
		isString = true
	case *types.Pointer:
		at := xt.Elem().Underlying().(*types.Array)
		vc.oblige("safety.nil", pc, sNot(sEq(x.C[0], "0")), ins.Pos(), "nil pointer dereference (slicing array)")
		r, o = x.C[0], x.C[1]
		ln, cp = off64(at.Len()), off64(at.Len())
		stride = vc.stride(at.Elem())
	default:
		panic("Slice on " + xt.String())
	}
	lo := off64(0)
	if ins.Low != nil {
		lo = vc.idx64(vc.val(ins.Low))
	}
	hi := ln
	if ins.High != nil {
		hi = vc.idx64(vc.val(ins.High))
	}
	mx := cp
	if ins.Max != nil {
		mx = vc.idx64(vc.val(ins.Max))
	}
	bound := cp
	if isString {
		bound = ln
	}
	cond := sAnd(bvCmp("bvule", lo, hi), bvCmp("bvule", hi, mx), bvCmp("bvule", mx, bound))
	if ins.Max == nil {
		cond = sAnd(bvCmp("bvule", lo, hi), bvCmp("bvule", hi, bound))
	}
	vc.oblige("safety.slice", pc, cond, ins.Pos(), "slice bounds 0 <= low <= high <= max <= cap")
	no := bvBin("bvadd", o, mulOff(lo, stride))
	nl := bvBin("bvsub", hi, lo)
	if isString {
		vc.bind(ins, &Val{K: KString, T: ins.Type(), C: []string{r, no, nl}})
		return
	}
	nc := bvBin("bvsub", mx, lo)
	vc.bind(ins, &Val{K: KSlice, T: ins.Type(), C: []string{r, no, nl, nc}})
}

func (vc *VC) execPanic(ins *ssa.Panic) {
	pc := vc.cur.pc
	if vc.c != nil && len(vc.c.PanicsIf) > 0 {
		env := vc.entryEnv()
		var cs []string
		for _, cl := range vc.c.PanicsIf {
			if vc.c.clauseMode(cl) != vc.modeName() {
				continue
			}
			cs = append(cs, vc.compileBool(env, cl.N))
		}
		vc.oblige("safety.panic", pc, sOr(cs...), ins.Pos(), "explicit panic only under the documented condition")
		return
	}
	vc.oblige("safety.panic", pc, "false", ins.Pos(), "explicit panic is unreachable")
}

func (vc *VC) modeName() string {
	if vc.ringMode {
		return "ring"
	}
	if vc.intMode {
		return "int"
	}
	return "bv"
}

// allocIsPrivate: the address of this local never escapes: it is only loaded from, stored to, or used to form
// field/element addresses that are themselves only loaded from / stored to.
func allocIsPrivate(a *ssa.Alloc) bool {
	var ok func(v ssa.Value, d int) bool
	ok = func(v ssa.Value, d int) bool {
		if d > 6 || v.Referrers() == nil {
			return false
		}
		for _, r := range *v.Referrers() {
			switch u := r.(type) {
			case *ssa.DebugRef:
			case *ssa.UnOp:
				if u.Op != token.MUL {
					return false
				}
			case *ssa.Store:
				if u.Val == v {
					return false // the address itself is stored somewhere
				}
			case *ssa.FieldAddr:
				if !ok(u, d+1) {
					return false
				}
			case *ssa.IndexAddr:
				if u.X != v || !ok(u, d+1) {
					return false
				}
			default:
				return false
			}
		}
		return true
	}
	return ok(a, 0)
}

package main

import (
	"fmt"
	"go/constant"
	"go/token"
	"go/types"
	"math/big"
	"sort"
	"strings"

	"golang.org/x/tools/go/ssa"
)

type Obligation struct {
	Name      string
	Kind      string // safety.index, post, inv-init, ...
	Term      string // formula that must hold (already guarded by path condition)
	Pos       string
	Desc      string
	Scaffold  bool
	Candidate int // >0: houdini candidate id (loop-local)
	CandLoop  int
	Skip      bool // not claimed by the current unit: assumed, not solved
	Cover     bool // vacuity cover: expected to be refutable (sat)
	PC        string // path condition under which the obligation is stated
	idx       int
}

type applyMark struct {
	from, to int
	pc       string
	what     string
}

type reachMark struct {
	at  int
	pc  string
	pos int
}

type Item struct {
	Text string
	Ob   *Obligation
}

type VC struct {
	e             *Engine
	fn            *ssa.Function
	c             *Contract
	decls         []string
	items         []Item
	nfresh        int
	vals          map[ssa.Value]*Val
	heap0         *Heap
	globals       map[*ssa.Global]string
	strlits       map[string]string
	obCount       map[string]int
	obs           []*Obligation
	notes         []string // unsupported / abstracted constructs
	loops         map[*ssa.BasicBlock]*loopInfo
	paramEnv      map[string]*Val
	cur           *blockCtx
	dropped       map[string]bool // houdini: dropped candidate keys
	inputs        []inputDesc     // for replay
	consts        []constFact
	trusted       map[string]bool
	callees       map[string]bool
	intMode       bool
	ringMode      bool
	callPC        map[*ssa.Call]string // path condition at each executed call instruction
	applyMarks    []applyMark // item ranges of callee-contract applications (vacuity guard)
	returnMarks   []reachMark // path conditions of the return instructions (vacuity guard)
	afterEntry    bool
	privateEntry  []string // storage references of by-value aggregate parameters
	allocRefs     map[string]bool // terms used as the reference of an object allocated by this function
	slice         sliceInfo
	opaqueDef     map[string]opaqueDef
	rs            *runState
	csHit         map[*CallSite]bool
	indexTerms    []string
	knownRefs     []string
	markHeaps     map[string]*Heap
	callHeaps     map[*ssa.Call]*Heap // heap right after each executed call returned (atcall)
	progTerms     []skolem
	cuts          []cutPoint
	privRefs      []string
	rowFacts      int
	funcCands     map[int]*ssa.Function
	knownNumerals map[string]bool
	tagTypes      map[string]types.Type
	opaque        map[string]*Val
	obReturn      map[*Obligation]*ssa.Return
	paramVals     []*Val
	entryItems    int
}

// cutPoint: obligations generated after item index `at` are proved from the entry assumptions, the items in
// [from, at) (the callsite assertions of the cut site) and everything generated from `at` on.
type cutPoint struct {
	from, at int
}

type constFact struct {
	comp string
	ref  string
	h0   string
}

type inputDesc struct {
	Name string
	Type string
	V    *Val
}

type blockCtx struct {
	b    *ssa.BasicBlock
	pc   string
	heap *Heap
}

type loopInfo struct {
	head     *ssa.BasicBlock
	blocks   map[*ssa.BasicBlock]bool
	ord      int // ordinal of for statement in source order (1-based), 0 unknown
	pos      token.Pos
	invs     []*loopInv
	headHeap *Heap
}

type loopInv struct {
	src       *SNode
	text      string
	candidate bool
	key       string
	autoTerm  func(over map[*ssa.Phi]*Val) string // for auto candidates built from SSA values
}

func (vc *VC) fresh(prefix, sort string) string {
	vc.nfresh++
	n := fmt.Sprintf("%s_%d", prefix, vc.nfresh)
	vc.decls = append(vc.decls, fmt.Sprintf("(declare-const %s %s)", n, sort))
	return n
}
func (vc *VC) declare(name, sort string) string {
	vc.decls = append(vc.decls, fmt.Sprintf("(declare-const %s %s)", name, sort))
	return name
}
func (vc *VC) assume(t string) {
	if t == "true" {
		return
	}
	vc.items = append(vc.items, Item{Text: "(assert " + t + ")"})
}
func (vc *VC) define(prefix, sort, t string) string {
	if t == "" {
		panic("internal: empty term for " + prefix)
	}
	// avoid trivial aliases
	if isAtom(t) {
		return t
	}
	n := vc.fresh(prefix, sort)
	vc.assume(app("=", n, t))
	return n
}
func isAtom(t string) bool {
	if !strings.ContainsAny(t, " (") {
		return true
	}
	if _, _, ok := asLit(t); ok {
		return true
	}
	return false
}

func (vc *VC) note(f string, a ...interface{}) {
	s := fmt.Sprintf(f, a...)
	for _, n := range vc.notes {
		if n == s {
			return
		}
	}
	vc.notes = append(vc.notes, s)
}

func (vc *VC) pos(p token.Pos) string {
	if !p.IsValid() {
		return ""
	}
	ps := vc.e.fset.Position(p)
	return fmt.Sprintf("%s:%d", relPath(ps.Filename), ps.Line)
}

func (vc *VC) oblige(kind string, pc, t string, pos token.Pos, desc string) *Obligation {
	vc.obCount[kind]++
	ob := &Obligation{Kind: kind, Term: sImp(pc, t), Pos: vc.pos(pos), Desc: desc, PC: pc}
	fname := "lemma"
	if vc.fn != nil {
		fname = vc.fn.String() // includes type arguments for generic instances
	}
	ob.Name = fmt.Sprintf("%s#%s.%d", fname, kind, vc.obCount[kind])
	ob.idx = len(vc.obs)
	vc.obs = append(vc.obs, ob)
	if ob.Term == "true" {
		// trivially true after folding: still counted, discharged by the generator's constant folder
		ob.Term = "true"
	}
	vc.items = append(vc.items, Item{Ob: ob})
	return ob
}

// ---------- heap ----------

func (vc *VC) newHeap0() *Heap {
	h := &Heap{m: map[string]string{}}
	names := make([]string, 0, len(compSorts))
	for c := range compSorts {
		names = append(names, c)
	}
	sort.Strings(names)
	for _, c := range names {
		h.m[c] = vc.declare("H0_"+strings.ReplaceAll(c, ".", "_"), heapSort(c))
	}
	h.alloc = vc.declare("alloc0", "Int")
	return h
}

// closedEntryHeap: every reference stored in the heap at function entry denotes an object that exists at entry
// (or nil), i.e. lies below the entry allocation counter -- in particular it is not an object this function
// allocates later. Stated once per reference component that the function actually loads.
func (vc *VC) closedEntryHeap(cs []comp) {
	if vc.heap0 == nil {
		return
	}
	for _, c := range cs {
		if c.sort != refSort || !strings.HasSuffix(c.name, ".r") || vc.trusted["closed:"+c.name] {
			continue
		}
		vc.trusted["closed:"+c.name] = true
		h0 := vc.heap0.m[c.name]
		t := sel(sel(h0, "r!"), "o!")
		body := []string{app("<=", "0", t), app("<", t, vc.heap0.alloc)}
		for _, pr := range vc.privateEntry {
			body = append(body, sNot(sEq(t, pr)))
		}
		// only cells of objects that exist at entry: the entry heap's cells above the allocation counter are the
		// (unconstrained) initial contents of objects allocated later, e.g. by a callee that returns a pointer to them
		vc.decls = append(vc.decls, fmt.Sprintf("(assert (forall ((r! Int) (o! (_ BitVec 64))) (! (=> (< r! %s) %s) :pattern (%s))))", vc.heap0.alloc, sAnd(body...), t))
	}
}

func (vc *VC) load(h *Heap, l *Layout, t types.Type, r, o string) *Val {
	if l.Kind == KAgg {
		return &Val{K: KAgg, T: t, C: []string{r, o}, H: h}
	}
	v := &Val{K: l.Kind, W: l.W, Signed: l.Signed, T: t}
	for _, c := range compsOf(l.Kind, l.W) {
		v.C = append(v.C, sel(sel(h.m[c.name], r), o))
	}
	switch l.Kind {
	case KPtr, KSlice, KString, KIface:
		vc.closedEntryHeap(compsOf(l.Kind, l.W))
	}
	return v
}

// storeScalar writes scalar value v at (r,o) in heap h (mutating the Heap version map).
func (vc *VC) storeScalar(h *Heap, l *Layout, r, o string, v *Val) {
	cs := compsOf(l.Kind, l.W)
	if len(cs) != len(v.C) {
		panic(fmt.Sprintf("storeScalar: kind mismatch %v vs %v", l.Kind, v))
	}
	for i, c := range cs {
		old := h.m[c.name]
		nh := vc.define("H", heapSort(c.name), sto(old, r, sto(sel(old, r), o, v.C[i])))
		h.m[c.name] = nh
		// ground read-over-write instances for the other objects the function knows by name (helps the
		// solvers' lazy array reasoning: reads of a[], b[] after a store into p[])
		if len(vc.knownRefs) > 0 && len(vc.knownRefs) <= 10 && vc.rowFacts < 400 {
			for _, kr := range vc.knownRefs {
				if kr == r {
					continue
				}
				vc.rowFacts++
				vc.assume(sImp(sNot(sEq(kr, r)), sEq(sel(nh, kr), sel(old, kr))))
			}
		}
	}
}

func (vc *VC) store(h *Heap, t types.Type, r, o string, v *Val) {
	l := layoutOf(t)
	if l.Kind != KAgg {
		vc.storeScalar(h, l, r, o, v)
		if vc.ringMode {
			// a limb written directly: the abstract ring values held in this object are no longer known
			h.m["fe"] = vc.define("H", heapSort("fe"), sto(h.m["fe"], r, vc.fresh("A", innerSort("fe"))))
		}
		return
	}
	if v.K != KAgg {
		panic("store agg of non-agg value")
	}
	vc.memcpy(h, r, o, v.H, v.C[0], v.C[1], l, bvLitI(64, l.N), l.N)
}

// memcpy copies n cells laid out as l (repeated) from (src heap, sr, so) to (dst heap h, dr, do).
// ncells < 0 means symbolic count nTerm.
func (vc *VC) memcpy(h *Heap, dr, do string, sh *Heap, sr, so string, l *Layout, nTerm string, ncells int64) {
	comps := []string{}
	if ncells >= 0 && ncells <= 24 && l.N > 0 && ncells%l.N == 0 {
		for base := int64(0); base < ncells; base += l.N {
			vc.copyCells(h, dr, do, sh, sr, so, l, base)
		}
		if !vc.ringMode {
			return
		}
	} else {
		for c := range l.Comps() {
			comps = append(comps, c)
		}
	}
	if vc.ringMode {
		// the ghost ring values travel with the cells (a copy of whole elements copies their values)
		if starts := leafStarts(l, 0, nil); ncells >= 0 && l.N > 0 && ncells%l.N == 0 && int64(len(starts))*(ncells/l.N) <= 64 {
			for base := int64(0); base < ncells; base += l.N {
				for _, st := range starts {
					k := off64(base + st)
					cur := h.m["fe"]
					h.m["fe"] = vc.define("H", heapSort("fe"), sto(cur, dr, sto(sel(cur, dr), bvBin("bvadd", do, k), sel(sel(sh.m["fe"], sr), bvBin("bvadd", so, k)))))
				}
			}
		} else {
			comps = append(comps, "fe")
		}
	}
	sort.Strings(comps)
	for _, c := range comps {
		old := h.m[c]
		inner := vc.fresh("A", innerSort(c))
		j := "j!"
		rel := bvBin("bvsub", j, do)
		body := app("=", sel(inner, j), app("ite", app("bvult", rel, nTerm),
			sel(sel(sh.m[c], sr), bvBin("bvadd", rel, so)), sel(sel(old, dr), j)))
		vc.assume(fmt.Sprintf("(forall ((%s (_ BitVec 64))) (! %s :pattern (%s)))", j, body, sel(inner, j)))
		h.m[c] = vc.define("H", heapSort(c), sto(old, dr, inner))
	}
}

func (vc *VC) copyCells(h *Heap, dr, do string, sh *Heap, sr, so string, l *Layout, base int64) {
	switch {
	case l.Elem != nil:
		for i := int64(0); i < l.Len; i++ {
			vc.copyCells(h, dr, do, sh, sr, so, l.Elem, base+i*l.Elem.N)
		}
	case l.Kind == KAgg:
		for i, f := range l.FL {
			vc.copyCells(h, dr, do, sh, sr, so, f, base+l.Fields[i])
		}
	default:
		off := bvLitI(64, base)
		v := vc.load(sh, l, nil, sr, bvBin("bvadd", so, off))
		vc.storeScalar(h, l, dr, bvBin("bvadd", do, off), v)
	}
}

// allocObj returns a fresh ref; contents zeroed for comps of layout l.
func (vc *VC) allocObj(h *Heap, l *Layout) string {
	r := vc.define("ref", "Int", h.alloc)
	h.alloc = vc.define("alloc", "Int", app("+", h.alloc, "1"))
	if vc.allocRefs == nil {
		vc.allocRefs = map[string]bool{}
	}
	vc.allocRefs[r] = true
	if vc.ringMode && l != nil {
		// a zero-initialised element represents the ring's zero
		h.m["fe"] = vc.define("H", heapSort("fe"), sto(h.m["fe"], r, "((as const "+innerSort("fe")+") 0)"))
	}
	if l != nil {
		comps := []string{}
		for c := range l.Comps() {
			comps = append(comps, c)
		}
		sort.Strings(comps)
		for _, c := range comps {
			old := h.m[c]
			nh := vc.define("H", heapSort(c), sto(old, r, fmt.Sprintf("((as const %s) %s)", innerSort(c), zeroOfSort(compSort(c)))))
			h.m[c] = nh
			// objects known by name existed before this allocation: their contents are unchanged
			if len(vc.knownRefs) <= 10 && vc.rowFacts < 400 {
				for _, kr := range vc.knownRefs {
					vc.rowFacts++
					vc.assume(sEq(sel(nh, kr), sel(old, kr)))
				}
			}
		}
	}
	return r
}

func zeroOfSort(s string) string {
	switch s {
	case "Int":
		return "0"
	case "Bool":
		return "false"
	}
	var w int
	fmt.Sscanf(s, "(_ BitVec %d)", &w)
	return bvLitI(w, 0)
}

// havocAll replaces every heap comp by a fresh one (constant globals re-assumed).
func (vc *VC) havocAll(h *Heap, only map[string]bool) {
	names := make([]string, 0, len(h.m))
	for c := range h.m {
		names = append(names, c)
	}
	sort.Strings(names)
	for _, c := range names {
		if only != nil && !only[c] && !(vc.ringMode && c == "fe" && len(only) > 0) {
			continue
		}
		old := h.m[c]
		h.m[c] = vc.fresh("H", heapSort(c))
		vc.reassumeConsts(h, c)
		// locals whose address never escapes cannot be written by anyone else
		for _, pr := range vc.privRefs {
			vc.assume(sEq(sel(h.m[c], pr), sel(old, pr)))
		}
	}
	na := vc.fresh("alloc", "Int")
	vc.assume(app(">=", na, h.alloc))
	h.alloc = na
}

func (vc *VC) reassumeConsts(h *Heap, c string) {
	for _, cf := range vc.consts {
		if cf.comp == c {
			vc.assume(app("=", sel(h.m[c], cf.ref), sel(cf.h0, cf.ref)))
		}
	}
}

// havocObj replaces the contents of object r for the given comps.
func (vc *VC) havocObj(h *Heap, r string, comps map[string]bool) {
	names := make([]string, 0, len(comps))
	for c := range comps {
		names = append(names, c)
	}
	if vc.ringMode && len(comps) > 0 && !comps["fe"] {
		names = append(names, "fe") // the ghost ring values of a written object are unknown afterwards
	}
	sort.Strings(names)
	for _, c := range names {
		inner := vc.fresh("A", innerSort(c))
		h.m[c] = vc.define("H", heapSort(c), sto(h.m[c], r, inner))
	}
}

func (vc *VC) mergeHeaps(conds []string, hs []*Heap) *Heap {
	if len(hs) == 1 {
		return hs[0].clone()
	}
	out := hs[len(hs)-1].clone()
	names := make([]string, 0, len(out.m))
	for c := range out.m {
		names = append(names, c)
	}
	sort.Strings(names)
	for _, c := range names {
		t := hs[len(hs)-1].m[c]
		diff := false
		for i := len(hs) - 2; i >= 0; i-- {
			if hs[i].m[c] != hs[len(hs)-1].m[c] {
				diff = true
			}
			t = sIte(conds[i], hs[i].m[c], t)
		}
		if diff {
			out.m[c] = vc.define("H", heapSort(c), t)
		}
	}
	t := hs[len(hs)-1].alloc
	for i := len(hs) - 2; i >= 0; i-- {
		t = sIte(conds[i], hs[i].alloc, t)
	}
	out.alloc = vc.define("alloc", "Int", t)
	return out
}

// ---------- values ----------

func (vc *VC) symVal(prefix string, t types.Type, h *Heap) *Val {
	l := layoutOf(t)
	if l.Kind == KAgg {
		if vc.afterEntry && h != nil && h == vc.cur.heap {
			// an aggregate value that appears during execution (a call result, an unboxed value ...): a new object
			// with unconstrained contents. (Picking "some existing object" instead would subject its reference
			// fields to the facts about the entry heap, e.g. the closed-entry-heap axiom, and contradict a callee
			// postcondition such as fresh(result.f).)
			r := vc.allocObj(h, nil)
			old := map[string]string{}
			for c := range l.Comps() {
				old[c] = h.m[c]
			}
			vc.havocObj(h, r, l.Comps())
			// objects known by name existed before: their contents are unchanged
			if len(vc.knownRefs) <= 10 {
				for _, c := range sortedKeys(l.Comps()) {
					for _, kr := range vc.knownRefs {
						if vc.rowFacts < 400 {
							vc.rowFacts++
							vc.assume(sEq(sel(h.m[c], kr), sel(old[c], kr)))
						}
					}
				}
			}
			return &Val{K: KAgg, T: t, C: []string{r, bvLitI(64, 0)}, H: h.clone()}
		}
		r := vc.fresh(prefix+".r", "Int")
		vc.assume(sAnd(app("<", "0", r), app("<", r, h.alloc)))
		return &Val{K: KAgg, T: t, C: []string{r, bvLitI(64, 0)}, H: h}
	}
	if l.Kind == KTuple {
		tu := t.(*types.Tuple)
		v := &Val{K: KTuple, T: t}
		for i := 0; i < tu.Len(); i++ {
			v.Elems = append(v.Elems, vc.symVal(fmt.Sprintf("%s.%d", prefix, i), tu.At(i).Type(), h))
		}
		return v
	}
	v := &Val{K: l.Kind, W: l.W, Signed: l.Signed, T: t}
	for _, c := range compsOf(l.Kind, l.W) {
		srt := c.sort
		if vc.intMode && l.Kind == KBV {
			srt = "Int"
		}
		v.C = append(v.C, vc.fresh(prefix+"."+strings.ReplaceAll(c.name, ".", ""), srt))
	}
	vc.assumeWF(v, h)
	return v
}

const maxCells = "(_ bv1099511627776 64)" // 2^40

// assumeWF: type invariants of a value that comes from outside (param, load, havocked result).
func (vc *VC) assumeWF(v *Val, h *Heap) {
	if vc.intMode && v.K == KBV {
		vc.assume(vc.intRange(v.C[0], v.W, v.Signed))
	}
	if w := vc.wfTerm(v, h); w != "true" {
		vc.assume(w)
	}
}

func (vc *VC) wfTerm(v *Val, h *Heap) string {
	switch v.K {
	case KPtr:
		return sAnd(app("<=", "0", v.C[0]), app("<", v.C[0], h.alloc), app("bvule", v.C[1], maxCells),
			app("=>", app("=", v.C[0], "0"), app("=", v.C[1], off64(0))))
	case KSlice:
		return sAnd(app("<=", "0", v.C[0]), app("<", v.C[0], h.alloc),
			app("bvule", v.C[1], maxCells), app("bvule", v.C[2], v.C[3]), app("bvule", v.C[3], maxCells),
			app("=>", app("=", v.C[0], "0"), app("=", v.C[3], bvLitI(64, 0))))
	case KString:
		return sAnd(app("<=", "0", v.C[0]), app("<", v.C[0], h.alloc),
			app("bvule", v.C[1], maxCells), app("bvule", v.C[2], maxCells))
	case KIface:
		return sAnd(app("<=", "0", v.C[0]), app("<=", "0", v.C[1]), app("<", v.C[1], h.alloc),
			app("=>", app("=", v.C[0], "0"), sAnd(app("=", v.C[1], "0"), app("=", v.C[2], off64(0)))))
	}
	return "true"
}

func (vc *VC) intRange(t string, w int, signed bool) string {
	if signed {
		lo := new(big.Int).Neg(new(big.Int).Lsh(big.NewInt(1), uint(w-1)))
		hi := new(big.Int).Lsh(big.NewInt(1), uint(w-1))
		return sAnd(app("<=", intLit(lo), t), app("<", t, intLit(hi)))
	}
	return sAnd(app("<=", "0", t), app("<", t, intLit(new(big.Int).Lsh(big.NewInt(1), uint(w)))))
}

func (vc *VC) intConst(t types.Type, n *big.Int) *Val {
	k, w, s := scalarKind(t)
	if k != KBV {
		panic("intConst non-int")
	}
	if vc.intMode {
		m := new(big.Int).Lsh(big.NewInt(1), uint(w))
		x := new(big.Int).Mod(n, m)
		if s {
			x = toSigned(x, w)
		}
		return &Val{K: KBV, W: w, Signed: s, T: t, C: []string{intLit(x)}}
	}
	return &Val{K: KBV, W: w, Signed: s, T: t, C: []string{bvLit(w, n)}}
}

func (vc *VC) zeroVal(t types.Type, h *Heap) *Val {
	l := layoutOf(t)
	switch l.Kind {
	case KAgg:
		hh := h.clone()
		r := vc.allocObj(hh, l)
		return &Val{K: KAgg, T: t, C: []string{r, bvLitI(64, 0)}, H: hh}
	case KBV:
		return vc.intConst(t, big.NewInt(0))
	}
	v := &Val{K: l.Kind, W: l.W, Signed: l.Signed, T: t}
	for _, c := range compsOf(l.Kind, l.W) {
		v.C = append(v.C, zeroOfSort(c.sort))
	}
	return v
}

func (vc *VC) boolVal(t string) *Val { return &Val{K: KBool, C: []string{t}, T: types.Typ[types.Bool]} }

func (vc *VC) globalRef(g *ssa.Global) string {
	if r, ok := vc.globals[g]; ok {
		return r
	}
	name := "g_" + sanitize(g.Pkg.Pkg.Path()+"."+g.Name())
	vc.declare(name, "Int")
	// globals are pairwise distinct, valid, pre-existing
	vc.decls = append(vc.decls, fmt.Sprintf("(assert (and (< 0 %s) (< %s alloc0)))", name, name))
	for _, o := range vc.globals {
		vc.decls = append(vc.decls, fmt.Sprintf("(assert (not (= %s %s)))", name, o))
	}
	for _, o := range vc.strlits {
		vc.decls = append(vc.decls, fmt.Sprintf("(assert (not (= %s %s)))", name, o))
	}
	vc.globals[g] = name
	vc.e.globalFacts(vc, g, name)
	return name
}

func sanitize(s string) string {
	var b strings.Builder
	for _, r := range s {
		if r >= 'a' && r <= 'z' || r >= 'A' && r <= 'Z' || r >= '0' && r <= '9' || r == '_' {
			b.WriteRune(r)
		} else {
			b.WriteByte('_')
		}
	}
	return b.String()
}

func (vc *VC) strLit(s string) *Val {
	r, ok := vc.strlits[s]
	if !ok {
		r = fmt.Sprintf("str_%d", len(vc.strlits))
		vc.declare(r, "Int")
		vc.decls = append(vc.decls, fmt.Sprintf("(assert (and (< 0 %s) (< %s alloc0)))", r, r))
		for _, o := range vc.globals {
			vc.decls = append(vc.decls, fmt.Sprintf("(assert (not (= %s %s)))", r, o))
		}
		for _, o := range vc.strlits {
			vc.decls = append(vc.decls, fmt.Sprintf("(assert (not (= %s %s)))", r, o))
		}
		vc.strlits[s] = r
		if len(s) <= 256 {
			for i := 0; i < len(s); i++ {
				byteLit := bvLitI(8, int64(s[i]))
				if vc.intMode {
					byteLit = fmt.Sprint(int(s[i])) // integer modes: heap cells of integer kinds are Ints
				}
				vc.decls = append(vc.decls, fmt.Sprintf("(assert (= (select (select %s %s) %s) %s))", vc.heap0.m["bv8"], r, bvLitI(64, int64(i)), byteLit))
			}
			vc.consts = append(vc.consts, constFact{"bv8", r, vc.heap0.m["bv8"]})
		}
	}
	return &Val{K: KString, T: types.Typ[types.String], C: []string{r, bvLitI(64, 0), bvLitI(64, int64(len(s)))}}
}

func (vc *VC) constVal(c *ssa.Const, h *Heap) *Val {
	t := c.Type()
	if c.Value == nil {
		if _, ok := t.Underlying().(*types.Basic); ok && t.Underlying().(*types.Basic).Kind() == types.UntypedNil {
			return &Val{K: KPtr, T: t, C: []string{"0", bvLitI(64, 0)}}
		}
		if tp, ok := t.(*types.TypeParam); ok {
			_ = tp
			panic("type parameter constant")
		}
		return vc.zeroVal(t, h)
	}
	k, w, _ := scalarKind(t)
	switch k {
	case KBV:
		n, ok := new(big.Int).SetString(c.Value.ExactString(), 10)
		if !ok {
			// e.g. rune or const expressed differently
			v := constant.ToInt(c.Value)
			n, ok = new(big.Int).SetString(v.ExactString(), 10)
			if !ok {
				panic("bad int const " + c.Value.ExactString())
			}
		}
		return vc.intConst(t, n)
	case KBool:
		if constant.BoolVal(c.Value) {
			return vc.boolVal("true")
		}
		return vc.boolVal("false")
	case KString:
		return vc.strLit(constant.StringVal(c.Value))
	case KFloat:
		vc.note("float constant abstracted")
		return &Val{K: KFloat, W: w, T: t, C: []string{vc.fresh("flc", bvSort(w))}}
	}
	panic(fmt.Sprintf("constVal: unsupported %s", t))
}

func (vc *VC) val(v ssa.Value) *Val {
	if x, ok := vc.vals[v]; ok {
		return x
	}
	var r *Val
	switch v := v.(type) {
	case *ssa.Const:
		return vc.constVal(v, vc.cur.heap) // not cached: zero aggs allocate
	case *ssa.Global:
		r = &Val{K: KPtr, T: v.Type(), C: []string{vc.globalRef(v), bvLitI(64, 0)}}
	case *ssa.Function:
		id := vc.e.funcID(v)
		if vc.funcCands == nil {
			vc.funcCands = map[int]*ssa.Function{}
		}
		vc.funcCands[id] = v
		r = &Val{K: KFunc, T: v.Type(), C: []string{fmt.Sprint(id)}}
	case *ssa.Builtin:
		r = &Val{K: KFunc, T: v.Type(), C: []string{"0"}}
	default:
		panic(fmt.Sprintf("value %s (%T) used before definition in %s", v.Name(), v, vc.fn))
	}
	vc.vals[v] = r
	return r
}

// bind names an SSA value's components (keeps VC readable and linear in size).
func (vc *VC) bind(v ssa.Value, x *Val) {
	if x.K == KTuple || x.K == KUnit {
		vc.vals[v] = x
		return
	}
	nv := *x
	nv.C = make([]string, len(x.C))
	for i, c := range x.C {
		if isAtom(c) {
			nv.C[i] = c
			continue
		}
		sortName := ""
		switch x.K {
		case KBV:
			if vc.intMode {
				sortName = "Int"
			} else {
				sortName = bvSort(x.W)
			}
		case KFloat:
			sortName = bvSort(x.W)
		case KAgg:
			sortName = compsOf(KPtr, 0)[i].sort
		default:
			sortName = compsOf(x.K, x.W)[i].sort
		}
		nv.C[i] = vc.define(fmt.Sprintf("v_%s_%d", v.Name(), i), sortName, c)
	}
	vc.vals[v] = &nv
}

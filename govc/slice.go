package main

// Cone-of-influence slicing of the hypotheses of one query.
//
// Every symbol introduced after function entry (a defined name, a havoc value, a later heap version) is a
// "propagating" symbol; the symbols of the entry state (parameters, initial heap, globals) and object
// identities (alloc_N) are not. Starting from the goal's propagating symbols, an item (hypothesis) is kept iff
// it has no propagating symbol or shares one with the set collected so far. Dropping hypotheses is sound (the
// query only gets harder to refute); it is not complete, so sliced queries are an additional attempt, never a
// replacement -- except in ring mode, where the goals speak about the ghost component only.

import (
	"os"
	"strings"
	"sync"
)

var sliceDebug = os.Getenv("GOVC_SLICEDBG") != ""

type sliceInfo struct {
	once sync.Once
	base map[string]bool
	syms [][]string // per item: propagating symbols
	decl map[string]bool
}

func tokenizeSyms(text string, f func(tok string)) {
	i := 0
	n := len(text)
	for i < n {
		c := text[i]
		if c == '|' {
			j := i + 1
			for j < n && text[j] != '|' {
				j++
			}
			i = j + 1
			continue
		}
		if isSymChar(c) {
			j := i
			for j < n && isSymChar(text[j]) {
				j++
			}
			if !(c >= '0' && c <= '9') {
				f(text[i:j])
			}
			i = j
			continue
		}
		i++
	}
}

func (vc *VC) sliceData() *sliceInfo {
	si := &vc.slice
	si.once.Do(func() {
		si.decl = map[string]bool{}
		for _, d := range vc.decls {
			if strings.HasPrefix(d, "(declare-const ") || strings.HasPrefix(d, "(declare-fun ") {
				rest := d[strings.Index(d, " ")+1:]
				if k := strings.IndexAny(rest, " "); k > 0 {
					si.decl[rest[:k]] = true
				}
			}
		}
		si.base = map[string]bool{}
		itemText := func(it Item) string {
			if it.Ob != nil {
				return it.Ob.Term
			}
			return it.Text
		}
		for i := 0; i < vc.entryItems && i < len(vc.items); i++ {
			tokenizeSyms(itemText(vc.items[i]), func(t string) {
				if si.decl[t] {
					si.base[t] = true
				}
			})
		}
		si.syms = make([][]string, len(vc.items))
		for i, it := range vc.items {
			seen := map[string]bool{}
			tokenizeSyms(itemText(it), func(t string) {
				if si.decl[t] && !si.base[t] && !seen[t] && !strings.HasPrefix(t, "alloc") {
					seen[t] = true
					si.syms[i] = append(si.syms[i], t)
				}
			})
		}
	})
	return si
}

// sliceItems returns, for the items before position tpos, whether each is kept for the given goal.
func (vc *VC) sliceItems(goal string, tpos int) []bool {
	si := vc.sliceData()
	rel := map[string]bool{}
	tokenizeSyms(goal, func(t string) {
		if si.decl[t] && !si.base[t] {
			rel[t] = true
		}
	})
	keep := make([]bool, tpos)
	for i := 0; i < tpos; i++ {
		if len(si.syms[i]) == 0 {
			keep[i] = true
		}
	}
	for changed := true; changed; {
		changed = false
		for i := tpos - 1; i >= 0; i-- {
			if keep[i] {
				continue
			}
			hit := ""
			for _, s := range si.syms[i] {
				if rel[s] {
					hit = s
					break
				}
			}
			if hit != "" {
				if sliceDebug {
					println("slice: item", i, "kept via", hit, "adds", strings.Join(si.syms[i], ","))
				}
				keep[i] = true
				changed = true
				for _, s := range si.syms[i] {
					rel[s] = true
				}
			}
		}
	}
	return keep
}

package main

// SMT-LIB term construction helpers with light constant folding.

import (
	"fmt"
	"math/big"
	"strings"
)

const refSort = "Int"
const offSort = "(_ BitVec 64)"

func bvSort(w int) string { return fmt.Sprintf("(_ BitVec %d)", w) }

func bvLit(w int, v *big.Int) string {
	m := new(big.Int).Lsh(big.NewInt(1), uint(w))
	x := new(big.Int).Mod(v, m)
	return fmt.Sprintf("(_ bv%s %d)", x.String(), w)
}
func bvLitI(w int, v int64) string { return bvLit(w, big.NewInt(v)) }

// asLit recognises (_ bvN W)
func asLit(t string) (*big.Int, int, bool) {
	if !strings.HasPrefix(t, "(_ bv") {
		return nil, 0, false
	}
	var w int
	rest := t[5 : len(t)-1]
	sp := strings.IndexByte(rest, ' ')
	if sp < 0 {
		return nil, 0, false
	}
	v, ok := new(big.Int).SetString(rest[:sp], 10)
	if !ok {
		return nil, 0, false
	}
	if _, err := fmt.Sscanf(rest[sp+1:], "%d", &w); err != nil {
		return nil, 0, false
	}
	return v, w, true
}

func intLit(v *big.Int) string {
	if v.Sign() < 0 {
		return "(- " + new(big.Int).Neg(v).String() + ")"
	}
	return v.String()
}

func app(op string, args ...string) string {
	return "(" + op + " " + strings.Join(args, " ") + ")"
}

func sAnd(args ...string) string {
	var xs []string
	for _, a := range args {
		if a == "true" {
			continue
		}
		if a == "false" {
			return "false"
		}
		xs = append(xs, a)
	}
	if len(xs) == 0 {
		return "true"
	}
	if len(xs) == 1 {
		return xs[0]
	}
	return app("and", xs...)
}
func sOr(args ...string) string {
	var xs []string
	for _, a := range args {
		if a == "false" {
			continue
		}
		if a == "true" {
			return "true"
		}
		xs = append(xs, a)
	}
	if len(xs) == 0 {
		return "false"
	}
	if len(xs) == 1 {
		return xs[0]
	}
	return app("or", xs...)
}
func sNot(a string) string {
	if a == "true" {
		return "false"
	}
	if a == "false" {
		return "true"
	}
	if strings.HasPrefix(a, "(not ") {
		return a[5 : len(a)-1]
	}
	return app("not", a)
}
func sImp(a, b string) string {
	if a == "true" {
		return b
	}
	if a == "false" || b == "true" {
		return "true"
	}
	return app("=>", a, b)
}
func sIte(c, a, b string) string {
	if c == "true" {
		return a
	}
	if c == "false" {
		return b
	}
	if a == b {
		return a
	}
	return app("ite", c, a, b)
}
func sEq(a, b string) string {
	if a == b {
		return "true"
	}
	if va, _, ok := asLit(a); ok {
		if vb, _, ok2 := asLit(b); ok2 {
			if va.Cmp(vb) == 0 {
				return "true"
			}
			return "false"
		}
	}
	return app("=", a, b)
}

func mask(w int) *big.Int {
	return new(big.Int).Sub(new(big.Int).Lsh(big.NewInt(1), uint(w)), big.NewInt(1))
}

func toSigned(v *big.Int, w int) *big.Int {
	if v.Bit(w-1) == 1 {
		return new(big.Int).Sub(v, new(big.Int).Lsh(big.NewInt(1), uint(w)))
	}
	return v
}

// bvBin builds a binary bit-vector op with constant folding for a few ops.
func bvBin(op string, a, b string) string {
	va, w, oka := asLit(a)
	vb, _, okb := asLit(b)
	if oka && okb {
		switch op {
		case "bvadd":
			return bvLit(w, new(big.Int).Add(va, vb))
		case "bvsub":
			return bvLit(w, new(big.Int).Sub(va, vb))
		case "bvmul":
			return bvLit(w, new(big.Int).Mul(va, vb))
		case "bvand":
			return bvLit(w, new(big.Int).And(va, vb))
		case "bvor":
			return bvLit(w, new(big.Int).Or(va, vb))
		case "bvxor":
			return bvLit(w, new(big.Int).Xor(va, vb))
		case "bvshl":
			if vb.Cmp(big.NewInt(int64(w))) >= 0 {
				return bvLitI(w, 0)
			}
			return bvLit(w, new(big.Int).Lsh(va, uint(vb.Int64())))
		case "bvlshr":
			if vb.Cmp(big.NewInt(int64(w))) >= 0 {
				return bvLitI(w, 0)
			}
			return bvLit(w, new(big.Int).Rsh(va, uint(vb.Int64())))
		}
	}
	if okb && vb.Sign() == 0 && (op == "bvadd" || op == "bvsub" || op == "bvor" || op == "bvxor" || op == "bvshl" || op == "bvlshr" || op == "bvashr") {
		return a
	}
	if oka && va.Sign() == 0 && (op == "bvadd" || op == "bvor" || op == "bvxor") {
		return b
	}
	if op == "bvmul" {
		if okb && vb.Cmp(big.NewInt(1)) == 0 {
			return a
		}
		if oka && va.Cmp(big.NewInt(1)) == 0 {
			return b
		}
	}
	return app(op, a, b)
}

func bvCmp(op string, a, b string) string {
	va, w, oka := asLit(a)
	vb, _, okb := asLit(b)
	if oka && okb {
		var c int
		if strings.HasPrefix(op, "bvs") {
			c = toSigned(va, w).Cmp(toSigned(vb, w))
		} else {
			c = va.Cmp(vb)
		}
		r := false
		switch op[3:] {
		case "lt":
			r = c < 0
		case "le":
			r = c <= 0
		case "gt":
			r = c > 0
		case "ge":
			r = c >= 0
		}
		if r {
			return "true"
		}
		return "false"
	}
	return app(op, a, b)
}

func bvExtend(signed bool, from, to int, a string) string {
	if to == from {
		return a
	}
	if v, _, ok := asLit(a); ok {
		if signed {
			return bvLit(to, toSigned(v, from))
		}
		return bvLit(to, v)
	}
	if signed {
		return fmt.Sprintf("((_ sign_extend %d) %s)", to-from, a)
	}
	return fmt.Sprintf("((_ zero_extend %d) %s)", to-from, a)
}
func bvExtract(hi, lo int, a string) string {
	if v, _, ok := asLit(a); ok {
		x := new(big.Int).Rsh(v, uint(lo))
		return bvLit(hi-lo+1, x)
	}
	return fmt.Sprintf("((_ extract %d %d) %s)", hi, lo, a)
}

// convert integer representation between widths (Go conversion semantics)
func bvConv(a string, fromW int, fromSigned bool, toW int) string {
	if toW == fromW {
		return a
	}
	if toW < fromW {
		return bvExtract(toW-1, 0, a)
	}
	return bvExtend(fromSigned, fromW, toW, a)
}

func sel(arr, idx string) string { return app("select", arr, idx) }
func sto(arr, idx, v string) string {
	return app("store", arr, idx, v)
}

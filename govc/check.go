package main

import (
	"bufio"
	"encoding/json"
	"flag"
	"fmt"
	"golang.org/x/tools/go/ssa"
	"os"
	"path/filepath"
	"regexp"
	"sort"
	"strconv"
	"strings"
	"time"
)

// PropSpec: /verif/props/<id>.json
type PropSpec struct {
	ID    string     `json:"id"`
	Units []PropUnit `json:"units"`
	// meta theorems / assumptions repeated in every evidence file
	Assumptions []string `json:"assumptions"`
	Residual    string   `json:"residual"`
}

type PropUnit struct {
	Config string   `json:"config"`
	Pkgs   []string `json:"pkgs"`
	Funcs  []string `json:"funcs"`  // regexps over function keys
	Kinds  string   `json:"kinds"`  // regexp over obligation kinds that count for this property ("" = all)
	Lemmas []string `json:"lemmas"` // regexps over lemma names
	Tier   string   `json:"tier"`   // "" = both, "thorough" = only thorough
	Expect int      `json:"expect_min_funcs"`
}

type KnownFinding struct {
	Property   string `json:"property"`
	Obligation string `json:"obligation"`
	Except     string `json:"except"` // spec expression over the function's parameters describing the known failing inputs
	What       string `json:"what"`
	Fixed      string `json:"fixed,omitempty"`
}

func loadKnownFindings(path string) ([]KnownFinding, error) {
	f, err := os.Open(path)
	if err != nil {
		if os.IsNotExist(err) {
			return nil, nil
		}
		return nil, err
	}
	defer f.Close()
	var out []KnownFinding
	sc := bufio.NewScanner(f)
	sc.Buffer(make([]byte, 1<<20), 1<<20)
	for sc.Scan() {
		ln := strings.TrimSpace(sc.Text())
		if ln == "" || strings.HasPrefix(ln, "#") || strings.HasPrefix(ln, "fixed:") {
			continue
		}
		var kf KnownFinding
		if err := json.Unmarshal([]byte(ln), &kf); err != nil {
			return nil, fmt.Errorf("%s: %v", path, err)
		}
		out = append(out, kf)
	}
	return out, sc.Err()
}

type Evidence struct {
	PropertyID  string                 `json:"property_id"`
	Tier        string                 `json:"tier"`
	Seed        int                    `json:"seed"`
	Level       string                 `json:"level"`
	Coverage    map[string]interface{} `json:"coverage"`
	Assumptions []string               `json:"assumptions"`
	WallS       float64                `json:"wall_s"`
	Violations  int                    `json:"violations"`
}

type failure struct {
	fr  *FuncResult
	or  *ObResult
	vc  *VC
	lem *LemmaResult
}

func cmdCheck(args []string) int {
	fs := flag.NewFlagSet("check", flag.ExitOnError)
	prop := fs.String("property", "", "property id")
	tier := fs.String("tier", "", "quick|thorough")
	root := fs.String("root", "/verif", "verif root")
	repo := fs.String("repo", "/repo", "repository")
	par := fs.Int("j", 14, "parallel functions")
	fs.Parse(args)
	if *tier == "" {
		*tier = os.Getenv("VERIF_TIER")
	}
	if *tier == "" {
		*tier = "quick"
	}
	seed, _ := strconv.Atoi(os.Getenv("VERIF_SEED"))
	t0 := time.Now()
	specData, err := os.ReadFile(filepath.Join(*root, "props", *prop+".json"))
	if err != nil {
		fmt.Fprintln(os.Stderr, err)
		return 2
	}
	var spec PropSpec
	if err := json.Unmarshal(specData, &spec); err != nil {
		fmt.Fprintln(os.Stderr, "bad prop spec:", err)
		return 2
	}
	// additional units: props/<id>.d/*.json (each a JSON list of units)
	extra, _ := filepath.Glob(filepath.Join(*root, "props", *prop+".d", "*.json"))
	sort.Strings(extra)
	for _, f := range extra {
		data, err := os.ReadFile(f)
		if err != nil {
			fmt.Fprintln(os.Stderr, err)
			return 2
		}
		var us []PropUnit
		if err := json.Unmarshal(data, &us); err != nil {
			fmt.Fprintf(os.Stderr, "bad unit file %s: %v\n", f, err)
			return 2
		}
		spec.Units = append(spec.Units, us...)
	}
	kfs, err := loadKnownFindings(filepath.Join(*root, "known_findings.jsonl"))
	if err != nil {
		fmt.Fprintln(os.Stderr, err)
		return 2
	}
	work := filepath.Join(*root, ".work", *prop+"-"+*tier)
	os.RemoveAll(work)
	os.MkdirAll(work, 0o755)
	defer func() {
		if os.Getenv("GOVC_KEEP") == "" {
			os.RemoveAll(work)
		}
	}()
	replayDir := filepath.Join(*root, "replays", *prop)
	os.RemoveAll(replayDir)
	timeout := 20000
	if *tier == "thorough" {
		timeout = 120000
	}
	cfg := SolverCfg{WorkDir: work, TimeoutMS: timeout}

	var allFuncs []*FuncResult
	var lemmaRes []*LemmaResult
	var failures []failure
	trusted := map[string]bool{}
	assumptions := map[string]bool{}
	for _, a := range spec.Assumptions {
		assumptions[a] = true
	}
	nObl, nDis := 0, 0
	byKind := map[string]int{}
	byBackend := map[string]int{}
	solverSecs := map[string]float64{}
	var slow []*ObResult
	var samples []interface{}
	genErrors := 0
	var kfPrinted []string
	violations := 0

	// one engine per load configuration, shared by all units (loaded with the union of their packages)
	engines := map[string]*Engine{}
	engineErr := map[string]error{}
	pkgUnion := map[string]map[string]bool{}
	for _, u := range spec.Units {
		if u.Tier == "thorough" && *tier != "thorough" {
			continue
		}
		if pkgUnion[u.Config] == nil {
			pkgUnion[u.Config] = map[string]bool{}
		}
		for _, p := range u.Pkgs {
			pkgUnion[u.Config][p] = true
		}
	}
	getEngine := func(cfgName string) (*Engine, error) {
		if e, ok := engines[cfgName]; ok {
			return e, engineErr[cfgName]
		}
		e, err := newEngine(*repo, cfgName, sortedKeys(pkgUnion[cfgName]))
		if err == nil {
			err = e.loadAllContracts(filepath.Join(*root, "contracts"))
			if err != nil {
				err = fmt.Errorf("contracts: %v", err)
			}
		}
		engines[cfgName], engineErr[cfgName] = e, err
		return e, err
	}
	// units with the same load configuration and kind filter are verified as one batch (all their functions
	// compete for the same worker pool), in the order of their first unit
	type batch struct {
		e      *Engine
		kinds  string
		fns    []*ssa.Function
		seen   map[string]bool
		lemmas []string
	}
	var batches []*batch
	batchOf := map[string]*batch{}
	for ui, u := range spec.Units {
		if u.Tier == "thorough" && *tier != "thorough" {
			continue
		}
		e, err := getEngine(u.Config)
		if err != nil && strings.HasPrefix(err.Error(), "contracts:") {
			fmt.Fprintf(os.Stderr, "%v\n", err)
			fmt.Printf("VIOLATION property=%s replay=%s contract-load-failed no-failing-input-found\n", *prop, writeReplay(replayDir, "contract-load-failed", map[string]interface{}{"error": err.Error()}))
			return 1
		}
		if err != nil {
			fmt.Fprintf(os.Stderr, "unit %d: load failed: %v\n", ui, err)
			fmt.Printf("VIOLATION property=%s replay=%s load-failed no-failing-input-found\n", *prop, writeReplay(replayDir, "load-failed", map[string]interface{}{"error": err.Error()}))
			return 1
		}
		fns := e.selectFuncsMulti(u.Funcs, map[string]bool{})
		if len(fns) < u.Expect {
			msg := fmt.Sprintf("unit %d selected %d functions, expected at least %d (a function under contract disappeared)", ui, len(fns), u.Expect)
			fmt.Fprintln(os.Stderr, msg)
			fmt.Printf("VIOLATION property=%s replay=%s functions-missing no-failing-input-found\n", *prop, writeReplay(replayDir, "functions-missing", map[string]interface{}{"error": msg}))
			violations++
		}
		bk := u.Config + "\x00" + u.Kinds
		b := batchOf[bk]
		if b == nil {
			b = &batch{e: e, kinds: u.Kinds, seen: map[string]bool{}}
			batchOf[bk] = b
			batches = append(batches, b)
		}
		for _, f := range fns {
			if !b.seen[f.String()] {
				b.seen[f.String()] = true
				b.fns = append(b.fns, f)
			}
		}
		b.lemmas = append(b.lemmas, u.Lemmas...)
	}
	for _, bt := range batches {
		e := bt.e
		var kindRe *regexp.Regexp
		if bt.kinds != "" {
			kindRe = regexp.MustCompile(bt.kinds)
		}
		e.kindFilter = kindRe
		fns := bt.fns
		u := struct{ Lemmas []string }{bt.lemmas}
		results := e.verifyAll(fns, cfg, *par)
		for _, r := range results {
			allFuncs = append(allFuncs, r)
			if r.GenError != "" {
				genErrors++
				fmt.Fprintf(os.Stderr, "GENERR %s: %s\n", r.Key, r.GenError)
				failures = append(failures, failure{fr: r})
				continue
			}
			if r.PreSat == "unsat" {
				fmt.Fprintf(os.Stderr, "VACUOUS %s: preconditions are unsatisfiable\n", r.Key)
				failures = append(failures, failure{fr: r})
			} else if len(r.Vacuous) > 0 {
				fmt.Fprintf(os.Stderr, "VACUOUS %s: unreachable under the collected hypotheses: %s\n", r.Key, strings.Join(r.Vacuous, "; "))
				r.GenError = "vacuous: program point unreachable under the hypotheses: " + strings.Join(r.Vacuous, "; ")
				failures = append(failures, failure{fr: r})
			}
			for _, n := range r.Notes {
				trusted["abstracted in "+shortKey(r.Key)+": "+n] = true
			}
			for _, c := range r.Callees {
				if ct := e.contracts[c]; ct != nil && ct.Assumed {
					trusted["assumed contract: "+shortKey(c)+" ("+ct.AssumedWhy+")"] = true
				} else if strings.HasPrefix(c, "invoke:") {
					trusted["interface call havocked: "+c[7:]] = true
				}
			}
			for _, o := range r.Obs {
				if kindRe != nil && !kindRe.MatchString(o.Ob.Kind) {
					continue
				}
				nObl++
				byKind[kindClass(o.Ob.Kind)]++
				if o.Status == "unsat" || o.Status == "folded" {
					nDis++
					byBackend[o.Solver]++
					solverSecs[o.Solver] += o.Seconds
					slow = append(slow, o)
					if len(samples) < 6 && o.Status == "unsat" && (strings.HasPrefix(o.Ob.Kind, "post") || len(samples) < 2) {
						samples = append(samples, map[string]interface{}{"obligation": o.Ob.Name, "kind": o.Ob.Kind, "at": o.Ob.Pos, "states": o.Ob.Desc, "backend": o.Solver, "smt_sha": o.SMTHash})
					}
				} else {
					failures = append(failures, failure{fr: r, or: o, vc: r.vc})
				}
			}
		}
		// lemmas
		for _, lr := range e.checkLemmas(u.Lemmas, cfg) {
			lemmaRes = append(lemmaRes, lr)
			nObl++
			byKind["lemma"]++
			if lr.Status == "unsat" {
				nDis++
				byBackend[lr.Solver]++
				solverSecs[lr.Solver] += lr.Seconds
			} else {
				failures = append(failures, failure{lem: lr})
			}
		}
		for k, c := range e.contracts {
			if c.Assumed && c.used {
				trusted["assumed contract: "+shortKey(k)+" ("+c.AssumedWhy+")"] = true
			}
		}
	}

	// stragglers: an obligation that is still undecided (no model) is posed once more at the end, alone on the
	// machine (everything else has finished), before it may become an alarm
	{
		kept := failures[:0]
		tried := 0
		for _, f := range failures {
			if f.or != nil && f.vc != nil && f.or.Status != "sat" && f.or.Status != "unsat" && tried < 12 && os.Getenv("GOVC_NORETRY") == "" {
				tried++
				cfgL := cfg
				cfgL.TimeoutMS = 3 * cfg.TimeoutMS
				r := raceSingleOpt(f.vc, f.or.Ob, cfgL, fileBaseFor(f.or.Ob.Name)+".last", strings.Contains(f.or.script, "(forall "))
				if r.Status == "unsat" {
					nDis++
					byBackend[r.Solver]++
					solverSecs[r.Solver] += r.Seconds
					fmt.Fprintf(os.Stderr, "straggler discharged at the end: %s [%s %.1fs]\n", f.or.Ob.Name, r.Solver, r.Seconds)
					continue
				}
			}
			kept = append(kept, f)
		}
		failures = kept
	}

	// report failures
	for _, f := range failures {
		switch {
		case f.lem != nil:
			p := writeReplay(replayDir, "lemma-"+f.lem.Name, map[string]interface{}{"lemma": f.lem.Name, "status": f.lem.Status, "solver_output": f.lem.Output, "kind": "lemma"})
			fmt.Printf("VIOLATION property=%s replay=%s obligation=lemma.%s status=%s no-failing-input-found\n", *prop, p, f.lem.Name, f.lem.Status)
			violations++
		case f.or == nil:
			p := writeReplay(replayDir, "generr-"+fileBaseFor(f.fr.Key), map[string]interface{}{"function": f.fr.Key, "error": f.fr.GenError, "presat": f.fr.PreSat})
			fmt.Printf("VIOLATION property=%s replay=%s obligation=%s#generate no-failing-input-found\n", *prop, p, f.fr.Key)
			violations++
		default:
			// known finding?
			handled := false
			for _, kf := range kfs {
				if kf.Property == *prop && kf.Obligation == f.or.Ob.Name {
					ok, why := f.vc.onlyFailsWithin(f.or.Ob, kf.Except, cfg)
					if ok {
						line := fmt.Sprintf("KNOWN-FINDING: property=%s %s [%s; inputs: %s]", *prop, kf.What, f.or.Ob.Name, kf.Except)
						fmt.Println(line)
						kfPrinted = append(kfPrinted, line)
						nObl-- // reported separately, not part of the discharged count
						byKind[kindClass(f.or.Ob.Kind)]--
						handled = true
					} else {
						fmt.Fprintf(os.Stderr, "known finding %s does not explain the failure: %s\n", kf.Obligation, why)
					}
					break
				}
			}
			if handled {
				continue
			}
			rep := f.vc.makeReplay(f.fr, f.or, replayDir, *repo)
			tail := ""
			if !rep.Reproduced {
				tail = " no-failing-input-found"
			}
			fmt.Printf("VIOLATION property=%s replay=%s obligation=%s status=%s at=%s%s\n", *prop, rep.Path, f.or.Ob.Name, f.or.Status, f.or.Ob.Pos, tail)
			violations++
		}
	}
	if nObl == 0 {
		fmt.Fprintln(os.Stderr, "no obligations generated: vacuous check")
		fmt.Printf("VIOLATION property=%s replay=%s vacuous-check no-failing-input-found\n", *prop, writeReplay(replayDir, "vacuous", map[string]interface{}{"error": "zero obligations"}))
		violations++
	}

	// evidence
	sort.Slice(slow, func(i, j int) bool { return slow[i].Seconds > slow[j].Seconds })
	var slowest []interface{}
	for i := 0; i < len(slow) && i < 5; i++ {
		slowest = append(slowest, map[string]interface{}{"obligation": slow[i].Ob.Name, "seconds": round2(slow[i].Seconds), "backend": slow[i].Solver})
	}
	var fnames []string
	assumedFns := 0
	for _, r := range allFuncs {
		fnames = append(fnames, shortKey(r.Key))
	}
	sort.Strings(fnames)
	for _, l := range lemmaRes {
		if len(samples) < 8 {
			samples = append(samples, map[string]interface{}{"obligation": "lemma." + l.Name, "kind": "lemma", "backend": l.Solver})
		}
	}
	tb := sortedKeys(trusted)
	tb = append(tb, "govc generator (SSA->SMT encoding, memory model, frame inference) and the SMT solvers z3 5.1.0 / z3 4.8.12 / cvc5 1.0",
		"Go toolchain front end (go/types, go/ssa) as the semantics of the source",
		"model bound: slice/array capacities <= 2^40 cells; pointer parameters and receivers non-nil on entry (checked at verified call sites)")
	cov := map[string]interface{}{
		"obligations":              nObl,
		"discharged":               nDis,
		"checker_cmd":              fmt.Sprintf("/verif/bin/govc check --property %s --tier %s", *prop, *tier),
		"trusted_base":             tb,
		"functions_under_contract": fnames,
		"functions":                len(fnames),
		"assumed_functions":        assumedFns,
		"obligations_by_kind":      byKind,
		"discharged_by_backend":    byBackend,
		"solver_seconds":           roundMap(solverSecs),
		"slowest":                  slowest,
		"samples":                  samples,
		"known_findings_printed":   kfPrinted,
		"generator_errors":         genErrors,
		"residual":                 spec.Residual,
		"bounded_standins":         []string{},
	}
	if len(samples) == 0 {
		cov["samples"] = []interface{}{"(none)"}
	}
	if *tier == "thorough" && violations == 0 {
		if st := runSelftest(*root, *repo, *prop, spec.Units); st != nil {
			cov["selftest"] = st
			det := 0
			for _, r := range st {
				if r.Detected {
					det++
				}
			}
			fmt.Printf("selftest: %d of %d seeded changes detected\n", det, len(st))
		}
	}
	ev := Evidence{PropertyID: *prop, Tier: *tier, Seed: seed, Level: "proof", Coverage: cov, Assumptions: sortedKeys(assumptions), WallS: round2(time.Since(t0).Seconds()), Violations: violations}
	os.MkdirAll(filepath.Join(*root, "evidence"), 0o755)
	data, _ := json.MarshalIndent(ev, "", " ")
	if err := os.WriteFile(filepath.Join(*root, "evidence", *prop+".json"), data, 0o644); err != nil {
		fmt.Fprintln(os.Stderr, err)
		return 2
	}
	fmt.Printf("property=%s tier=%s functions=%d obligations=%d discharged=%d violations=%d known-findings=%d wall=%.1fs\n", *prop, *tier, len(fnames), nObl, nDis, violations, len(kfPrinted), time.Since(t0).Seconds())
	if violations > 0 {
		return 1
	}
	return 0
}

func round2(x float64) float64 { return float64(int(x*100+0.5)) / 100 }
func roundMap(m map[string]float64) map[string]float64 {
	o := map[string]float64{}
	for k, v := range m {
		o[k] = round2(v)
	}
	return o
}

func kindClass(k string) string {
	if i := strings.Index(k, "."); i >= 0 {
		return k[:i]
	}
	return k
}

func shortKey(k string) string {
	return strings.ReplaceAll(k, "github.com/cloudflare/circl/", "")
}

func writeReplay(dir, name string, v map[string]interface{}) string {
	os.MkdirAll(dir, 0o755)
	p := filepath.Join(dir, fileBaseFor(name)+".json")
	data, _ := json.MarshalIndent(v, "", " ")
	os.WriteFile(p, data, 0o644)
	return p
}

package main

import (
	"fmt"
	"go/token"
	"go/types"
	"os"
	"sort"
	"strings"

	"golang.org/x/tools/go/ssa"
)

type edgeKey struct {
	from *ssa.BasicBlock
	idx  int
}

type blockOut struct {
	pc   string
	heap *Heap
}

type runState struct {
	out   map[*ssa.BasicBlock]*blockOut
	edge  map[edgeKey]string
	order []*ssa.BasicBlock
}

func (vc *VC) analyzeCFG() (order []*ssa.BasicBlock) {
	fn := vc.fn
	vc.loops = map[*ssa.BasicBlock]*loopInfo{}
	// back edges
	for _, b := range fn.Blocks {
		for _, s := range b.Succs {
			if s.Dominates(b) {
				li := vc.loops[s]
				if li == nil {
					li = &loopInfo{head: s, blocks: map[*ssa.BasicBlock]bool{s: true}}
					vc.loops[s] = li
				}
				// natural loop: nodes reaching b without passing s
				var stack []*ssa.BasicBlock
				if !li.blocks[b] {
					li.blocks[b] = true
					stack = append(stack, b)
				}
				for len(stack) > 0 {
					x := stack[len(stack)-1]
					stack = stack[:len(stack)-1]
					for _, p := range x.Preds {
						if !li.blocks[p] {
							li.blocks[p] = true
							stack = append(stack, p)
						}
					}
				}
			}
		}
	}
	// topological order ignoring back edges (reverse postorder DFS)
	seen := map[*ssa.BasicBlock]bool{}
	var post []*ssa.BasicBlock
	var dfs func(b *ssa.BasicBlock)
	dfs = func(b *ssa.BasicBlock) {
		seen[b] = true
		for _, s := range b.Succs {
			if s.Dominates(b) { // back edge
				continue
			}
			if !seen[s] {
				dfs(s)
			}
		}
		post = append(post, b)
	}
	dfs(fn.Blocks[0])
	for i := len(post) - 1; i >= 0; i-- {
		order = append(order, post[i])
	}
	vc.assignLoopOrdinals()
	if vc.c != nil {
		allK := map[int]bool{}
		for k := range vc.c.Loops {
			allK[k] = true
		}
		for k := range vc.c.Unroll {
			allK[k] = true
		}
		for k := range allK {
			found := false
			for _, li := range vc.loops {
				if li.ord == k {
					found = true
				}
			}
			if !found {
				panic(specFail(fmt.Sprintf("contract has invariants for loop %d but the function has no such loop (loops found: %d)", k, len(vc.loops))))
			}
		}
	}
	return order
}

func (vc *VC) run() {
	order := vc.analyzeCFG()
	vc.resolveLineAsserts()
	rs := &runState{out: map[*ssa.BasicBlock]*blockOut{}, edge: map[edgeKey]string{}, order: order}
	vc.rs = rs
	done := map[*ssa.BasicBlock]bool{}
	for _, b := range order {
		if done[b] {
			continue
		}
		vc.processBlock(rs, b, done)
	}
}

// processBlock symbolically executes one block (or, for the head of an unrolled loop, the whole loop).
func (vc *VC) processBlock(rs *runState, b *ssa.BasicBlock, done map[*ssa.BasicBlock]bool) {
	if li := vc.loops[b]; li != nil && vc.unrollOf(li) > 0 {
		vc.runUnrolled(rs, li, vc.unrollOf(li), done)
		return
	}
	done[b] = true
	vc.enterBlock(rs, b)
	vc.execBlockBody(rs, b)
}

func (vc *VC) execBlockBody(rs *runState, b *ssa.BasicBlock) {
	if vc.cur.pc == "false" {
		rs.out[b] = &blockOut{pc: "false", heap: vc.cur.heap}
		for i := range b.Succs {
			rs.edge[edgeKey{b, i}] = "false"
		}
		return
	}
	for _, ins := range b.Instrs {
		if _, ok := ins.(*ssa.Phi); ok {
			continue
		}
		vc.lineAsserts(ins)
		vc.exec(rs, ins)
	}
	rs.out[b] = &blockOut{pc: vc.cur.pc, heap: vc.cur.heap}
	// back edges out of b (loops cut by invariants)
	for i, s := range b.Succs {
		if s.Dominates(b) {
			if li := vc.loops[s]; li != nil && vc.unrollOf(li) > 0 {
				continue // handled by runUnrolled
			}
			vc.backEdge(rs, b, i, s)
		}
	}
}

func (vc *VC) unrollOf(li *loopInfo) int {
	if vc.c == nil || li.ord == 0 {
		return 0
	}
	return vc.c.Unroll[li.ord]
}

// runUnrolled executes a loop with a constant trip count by exact unrolling: the body is executed up to
// K times; after the K-th iteration the back edge must be infeasible (obligation "unwind"), which makes the
// unrolling a complete proof rather than a bound.
func (vc *VC) runUnrolled(rs *runState, li *loopInfo, K int, done map[*ssa.BasicBlock]bool) {
	h := li.head
	var loopOrder []*ssa.BasicBlock
	for _, b := range rs.order {
		if li.blocks[b] {
			loopOrder = append(loopOrder, b)
		}
	}
	type backIn struct {
		cond string
		heap *Heap
		phis map[*ssa.Phi]*Val
	}
	type exitRec struct {
		key  edgeKey
		cond string
		heap *Heap
	}
	var exits []exitRec
	versions := map[ssa.Value][]*Val{} // per iteration (nil if not defined)
	var exitedIn []string
	// iteration 0 enters from outside
	preds, conds, heaps := vc.incoming(rs, h, false)
	var backs []backIn
	if len(preds) == 0 {
		for _, b := range loopOrder {
			done[b] = true
			rs.out[b] = &blockOut{pc: "false", heap: vc.heap0.clone()}
			for i := range b.Succs {
				rs.edge[edgeKey{b, i}] = "false"
			}
		}
		return
	}
	for it := 0; ; it++ {
		var pc string
		var heap *Heap
		phiVals := map[*ssa.Phi]*Val{}
		if it == 0 {
			pc = vc.define(fmt.Sprintf("pc_%d_u0", h.Index), "Bool", sOr(conds...))
			heap = vc.mergeHeaps(conds, heaps)
			for _, ins := range h.Instrs {
				phi, ok := ins.(*ssa.Phi)
				if !ok {
					break
				}
				phiVals[phi] = vc.phiMerge(phi, h, preds, conds)
			}
		} else {
			var cs []string
			var hs []*Heap
			for _, bi := range backs {
				cs = append(cs, bi.cond)
				hs = append(hs, bi.heap)
			}
			if len(cs) == 0 || sOr(cs...) == "false" {
				break
			}
			if it > K {
				ob := vc.oblige("unwind", "true", sNot(sOr(cs...)), li.pos, fmt.Sprintf("loop %d has exited after %d iterations (unroll %d is complete)", li.ord, K, K))
				ob.Scaffold = true
				break
			}
			pc = vc.define(fmt.Sprintf("pc_%d_u%d", h.Index, it), "Bool", sOr(cs...))
			heap = vc.mergeHeaps(cs, hs)
			for _, ins := range h.Instrs {
				phi, ok := ins.(*ssa.Phi)
				if !ok {
					break
				}
				var vs []*Val
				for _, bi := range backs {
					vs = append(vs, bi.phis[phi])
				}
				phiVals[phi] = vc.iteVals(cs, vs, phi.Type())
			}
		}
		// head
		li.headHeap = heap.clone()
		vc.cur = &blockCtx{b: h, pc: pc, heap: heap}
		for phi, v := range phiVals {
			vc.bind(phi, v)
		}
		vc.execBlockBody(rs, h)
		itDone := map[*ssa.BasicBlock]bool{h: true}
		for _, b := range loopOrder {
			if itDone[b] {
				continue
			}
			vc.processBlock(rs, b, itDone)
		}
		// collect back edges, exits and live values of this iteration
		backs = nil
		var exitCs []string
		for _, b := range loopOrder {
			bo := rs.out[b]
			if bo == nil {
				continue
			}
			for i, s := range b.Succs {
				ec := rs.edge[edgeKey{b, i}]
				if ec == "" || ec == "false" {
					continue
				}
				if s == h {
					bi := backIn{cond: ec, heap: bo.heap, phis: map[*ssa.Phi]*Val{}}
					for _, ins := range h.Instrs {
						phi, ok := ins.(*ssa.Phi)
						if !ok {
							break
						}
						bi.phis[phi] = vc.val(phi.Edges[predIndex(h, b)])
					}
					backs = append(backs, bi)
				} else if !li.blocks[s] {
					exits = append(exits, exitRec{edgeKey{b, i}, ec, bo.heap})
					exitCs = append(exitCs, ec)
				}
			}
		}
		exitedIn = append(exitedIn, sOr(exitCs...))
		for _, b := range loopOrder {
			for _, ins := range b.Instrs {
				if v, ok := ins.(ssa.Value); ok {
					for len(versions[v]) < it {
						versions[v] = append(versions[v], nil)
					}
					if rs.out[b] != nil && rs.out[b].pc != "false" {
						versions[v] = append(versions[v], vc.vals[v])
					} else {
						versions[v] = append(versions[v], nil)
					}
				}
			}
		}
	}
	// aggregate the exits of all iterations
	for _, b := range loopOrder {
		done[b] = true
	}
	byKey := map[edgeKey][]exitRec{}
	var keys []edgeKey
	for _, e := range exits {
		if _, ok := byKey[e.key]; !ok {
			keys = append(keys, e.key)
		}
		byKey[e.key] = append(byKey[e.key], e)
	}
	exitBlocks := map[*ssa.BasicBlock]bool{}
	for _, b := range loopOrder {
		for i, s := range b.Succs {
			if !li.blocks[s] {
				rs.edge[edgeKey{b, i}] = "false"
				exitBlocks[b] = true
			}
		}
	}
	perBlock := map[*ssa.BasicBlock][]exitRec{}
	for _, k := range keys {
		var cs []string
		for _, e := range byKey[k] {
			cs = append(cs, e.cond)
			perBlock[k.from] = append(perBlock[k.from], e)
		}
		rs.edge[k] = vc.define(fmt.Sprintf("e_%d_x", k.from.Index), "Bool", sOr(cs...))
	}
	for b := range exitBlocks {
		recs := perBlock[b]
		if len(recs) == 0 {
			rs.out[b] = &blockOut{pc: "false", heap: vc.heap0.clone()}
			continue
		}
		var cs []string
		var hs []*Heap
		for _, e := range recs {
			cs = append(cs, e.cond)
			hs = append(hs, e.heap)
		}
		rs.out[b] = &blockOut{pc: sOr(cs...), heap: vc.mergeHeaps(cs, hs)}
	}
	// values defined in the loop and used after it: select the version of the exiting iteration
	for v, vers := range versions {
		ins, _ := v.(ssa.Instruction)
		if ins == nil || v.Referrers() == nil {
			continue
		}
		usedOutside := false
		for _, r := range *v.Referrers() {
			if !li.blocks[r.Block()] {
				usedOutside = true
			}
		}
		if !usedOutside {
			continue
		}
		var cs []string
		var vs []*Val
		for it, x := range vers {
			if x == nil || it >= len(exitedIn) || exitedIn[it] == "false" {
				continue
			}
			if x.K == KTuple || x.K == KUnit {
				vs = nil
				break
			}
			cs = append(cs, exitedIn[it])
			vs = append(vs, x)
		}
		if len(vs) > 0 {
			func() {
				defer func() { recover() }()
				vc.bind(v, vc.iteVals(cs, vs, v.Type()))
			}()
		}
	}
}

func (vc *VC) incoming(rs *runState, b *ssa.BasicBlock, back bool) (preds []*ssa.BasicBlock, conds []string, heaps []*Heap) {
	for _, p := range b.Preds {
		if b.Dominates(p) != back {
			continue
		}
		if vc.loops[b] == nil && back {
			continue
		}
		po := rs.out[p]
		if po == nil {
			continue // unreachable pred
		}
		// there may be two edges p->b (both branches); OR them
		var cs []string
		for i, s := range p.Succs {
			if s == b {
				ec := rs.edge[edgeKey{p, i}]
				if ec == "" {
					ec = "false"
				}
				cs = append(cs, ec)
			}
		}
		dup := false
		for _, q := range preds {
			if q == p {
				dup = true
			}
		}
		if dup {
			continue
		}
		if sOr(cs...) == "false" {
			continue // edge never taken (unreachable predecessor)
		}
		preds = append(preds, p)
		conds = append(conds, sOr(cs...))
		heaps = append(heaps, po.heap)
	}
	return
}

func predIndex(b, p *ssa.BasicBlock) int {
	for i, q := range b.Preds {
		if q == p {
			return i
		}
	}
	return -1
}

func (vc *VC) phiMerge(phi *ssa.Phi, b *ssa.BasicBlock, preds []*ssa.BasicBlock, conds []string) *Val {
	var vs []*Val
	for _, p := range preds {
		vs = append(vs, vc.val(phi.Edges[predIndex(b, p)]))
	}
	return vc.iteVals(conds, vs, phi.Type())
}

func (vc *VC) iteVals(conds []string, vs []*Val, t types.Type) *Val {
	last := vs[len(vs)-1]
	if len(vs) == 1 {
		return last
	}
	if last.K == KTuple {
		panic("phi of tuple")
	}
	out := *last
	out.T = t
	out.C = make([]string, len(last.C))
	for ci := range last.C {
		tm := last.C[ci]
		for i := len(vs) - 2; i >= 0; i-- {
			if len(vs[i].C) != len(last.C) {
				// nil pointer const vs slice etc.
				vs[i] = vc.coerceNil(vs[i], last)
			}
			tm = sIte(conds[i], vs[i].C[ci], tm)
		}
		out.C[ci] = tm
	}
	if last.K == KAgg {
		hs := make([]*Heap, len(vs))
		same := true
		for i, v := range vs {
			hs[i] = v.H
			if v.H != vs[0].H {
				same = false
			}
		}
		if same {
			out.H = vs[0].H
		} else {
			out.H = vc.mergeHeaps(conds, hs)
		}
	}
	return &out
}

func (vc *VC) coerceNil(v *Val, like *Val) *Val {
	if v.K == KPtr && v.C[0] == "0" {
		z := &Val{K: like.K, W: like.W, T: like.T}
		for _, c := range compsOf(like.K, like.W) {
			z.C = append(z.C, zeroOfSort(c.sort))
		}
		return z
	}
	panic(fmt.Sprintf("cannot merge %v with %v", v, like))
}

func (vc *VC) enterBlock(rs *runState, b *ssa.BasicBlock) {
	if b == vc.fn.Blocks[0] {
		vc.cur = &blockCtx{b: b, pc: "true", heap: vc.heap0.clone()}
		vc.entry()
		return
	}
	preds, conds, heaps := vc.incoming(rs, b, false)
	if len(preds) == 0 {
		vc.cur = &blockCtx{b: b, pc: "false", heap: vc.heap0.clone()}
		return
	}
	pc := vc.define(fmt.Sprintf("pc_%d", b.Index), "Bool", sOr(conds...))
	heap := vc.mergeHeaps(conds, heaps)
	vc.cur = &blockCtx{b: b, pc: pc, heap: heap}
	li := vc.loops[b]
	if li == nil {
		for _, ins := range b.Instrs {
			phi, ok := ins.(*ssa.Phi)
			if !ok {
				break
			}
			vc.bind(phi, vc.phiMerge(phi, b, preds, conds))
		}
		return
	}
	// ----- loop head -----
	vc.prepareLoop(li)
	// entry values of phis
	entryPhi := map[*ssa.Phi]*Val{}
	for _, ins := range b.Instrs {
		phi, ok := ins.(*ssa.Phi)
		if !ok {
			break
		}
		entryPhi[phi] = vc.phiMerge(phi, b, preds, conds)
	}
	// inv-init
	for _, inv := range li.invs {
		if vc.dropped[inv.key] {
			continue
		}
		t := vc.evalInv(li, inv, heap, entryPhi)
		ob := vc.oblige("inv-init", pc, t, li.pos, fmt.Sprintf("loop %d invariant holds on entry: %s", li.ord, inv.text))
		ob.Scaffold = true
		if inv.candidate {
			ob.Candidate = 1
			ob.Desc = inv.key
		}
	}
	// havoc
	hh := vc.loopHavoc(li, heap)
	vc.cur.heap = hh
	li.headHeap = hh.clone()
	for _, ins := range b.Instrs {
		phi, ok := ins.(*ssa.Phi)
		if !ok {
			break
		}
		v := vc.symValNoWF(fmt.Sprintf("v_%s", phi.Name()), phi.Type(), hh)
		vc.vals[phi] = v
		vc.assumeWF(v, hh)
		if v.K == KBV && !vc.intMode && len(vc.progTerms) < 16 {
			vc.progTerms = append(vc.progTerms, skolem{v.C[0], bvSort(v.W)})
		}
	}
	for _, inv := range li.invs {
		if vc.dropped[inv.key] {
			continue
		}
		t := vc.evalInv(li, inv, hh, nil)
		vc.assume(sImp(pc, t))
	}
}

func (vc *VC) symValNoWF(prefix string, t types.Type, h *Heap) *Val {
	l := layoutOf(t)
	if l.Kind == KAgg {
		// aggregate phi: snapshot at an unknown location of the current heap
		return vc.symVal(prefix, t, h)
	}
	v := &Val{K: l.Kind, W: l.W, Signed: l.Signed, T: t}
	for _, c := range compsOf(l.Kind, l.W) {
		s := c.sort
		if vc.intMode && l.Kind == KBV {
			s = "Int"
		}
		v.C = append(v.C, vc.fresh(prefix+"."+strings.ReplaceAll(c.name, ".", ""), s))
	}
	return v
}

func (vc *VC) backEdge(rs *runState, p *ssa.BasicBlock, succIdx int, h *ssa.BasicBlock) {
	li := vc.loops[h]
	cond := rs.edge[edgeKey{p, succIdx}]
	over := map[*ssa.Phi]*Val{}
	for _, ins := range h.Instrs {
		phi, ok := ins.(*ssa.Phi)
		if !ok {
			break
		}
		over[phi] = vc.val(phi.Edges[predIndex(h, p)])
	}
	if vc.c != nil {
		for _, lc := range vc.c.LoopCalls[li.ord] {
			var call *ssa.Call
			for _, b := range vc.fn.Blocks {
				for _, ins := range b.Instrs {
					if c, ok := ins.(*ssa.Call); ok && callName(c.Common()) == lc.Name && vc.callOrdinal(c) == lc.K {
						call = c
					}
				}
			}
			if call == nil {
				panic(specFail(fmt.Sprintf("loop %d: calls %s#%d: no such call in %s", li.ord, lc.Name, lc.K, vc.fn.Name())))
			}
			pcCall, ok := vc.callPC[call]
			if !ok || !li.blocks[call.Block()] {
				pcCall = "false"
			}
			vc.oblige("inv-calls", cond, pcCall, li.pos, fmt.Sprintf("loop %d: every iteration calls %s#%d", li.ord, lc.Name, lc.K))
		}
	}
	for _, inv := range li.invs {
		if vc.dropped[inv.key] {
			continue
		}
		t := vc.evalInv(li, inv, rs.out[p].heap, over)
		ob := vc.oblige("inv-pres", cond, t, li.pos, fmt.Sprintf("loop %d invariant preserved: %s", li.ord, inv.text))
		ob.Scaffold = true
		if inv.candidate {
			ob.Candidate = 1
			ob.Desc = inv.key
		}
	}
}

// ---------- loop havoc ----------

func (vc *VC) inLoop(li *loopInfo, v ssa.Value) bool {
	ins, ok := v.(ssa.Instruction)
	if !ok {
		return false
	}
	return li.blocks[ins.Block()]
}

// refAtHead: term for the object ref that address/slice value v denotes, valid at the loop head
// for every iteration; ok=false if it may vary.
func (vc *VC) refAtHead(li *loopInfo, v ssa.Value, heap *Heap, written map[string]bool) (string, bool) {
	if !vc.inLoop(li, v) {
		x, ok := vc.vals[v]
		if !ok {
			switch v.(type) {
			case *ssa.Global, *ssa.Const:
				x = vc.val(v)
			default:
				return "", false
			}
		}
		if x.K == KPtr || x.K == KSlice || x.K == KString {
			return x.C[0], true
		}
		return "", false
	}
	switch v := v.(type) {
	case *ssa.FieldAddr:
		return vc.refAtHead(li, v.X, heap, written)
	case *ssa.IndexAddr:
		return vc.refAtHead(li, v.X, heap, written)
	case *ssa.Slice:
		return vc.refAtHead(li, v.X, heap, written)
	case *ssa.ChangeType:
		return vc.refAtHead(li, v.X, heap, written)
	case *ssa.UnOp:
		if v.Op == token.MUL {
			k, _, _ := scalarKind(v.Type())
			comp := ""
			switch k {
			case KPtr:
				comp = "p.r"
			case KSlice:
				comp = "s.r"
			default:
				return "", false
			}
			if written[comp] {
				return "", false
			}
			r, o, ok := vc.addrAtHead(li, v.X, heap, written)
			if !ok {
				return "", false
			}
			return sel(sel(heap.m[comp], r), o), true
		}
	}
	return "", false
}

func (vc *VC) addrAtHead(li *loopInfo, v ssa.Value, heap *Heap, written map[string]bool) (string, string, bool) {
	if !vc.inLoop(li, v) {
		x, ok := vc.vals[v]
		if !ok {
			if g, isg := v.(*ssa.Global); isg {
				x = vc.val(g)
			} else {
				return "", "", false
			}
		}
		if x.K == KPtr {
			return x.C[0], x.C[1], true
		}
		return "", "", false
	}
	switch v := v.(type) {
	case *ssa.FieldAddr:
		r, o, ok := vc.addrAtHead(li, v.X, heap, written)
		if !ok {
			return "", "", false
		}
		st := v.X.Type().Underlying().(*types.Pointer).Elem()
		l := layoutOf(st)
		return r, bvBin("bvadd", o, bvLitI(64, l.Fields[v.Field])), true
	case *ssa.UnOp:
		if v.Op == token.MUL {
			if k, _, _ := scalarKind(v.Type()); k == KPtr && !written["p.r"] {
				r, o, ok := vc.addrAtHead(li, v.X, heap, written)
				if !ok {
					return "", "", false
				}
				return sel(sel(heap.m["p.r"], r), o), sel(sel(heap.m["p.o"], r), o), true
			}
		}
	}
	return "", "", false
}

func (vc *VC) loopHavoc(li *loopInfo, heap *Heap) *Heap {
	// pass 1: comps possibly written
	written := map[string]bool{}
	type target struct {
		comps map[string]bool
		v     ssa.Value // root address/slice value; nil = any
	}
	var targets []target
	blocks := make([]*ssa.BasicBlock, 0, len(li.blocks))
	for b := range li.blocks {
		blocks = append(blocks, b)
	}
	sort.Slice(blocks, func(i, j int) bool { return blocks[i].Index < blocks[j].Index })
	for _, b := range blocks {
		for _, ins := range b.Instrs {
			switch ins := ins.(type) {
			case *ssa.Store:
				cs := layoutOf(ins.Val.Type()).Comps()
				targets = append(targets, target{cs, ins.Addr})
			case *ssa.Call:
				for _, fe := range vc.callFrame(ins) {
					var root ssa.Value
					if fe.arg >= 0 {
						root = ins.Call.Args[fe.arg]
						if ins.Call.IsInvoke() {
							root = nil
						}
					}
					targets = append(targets, target{fe.comps, root})
				}
			case *ssa.Defer, *ssa.Go:
				targets = append(targets, target{allComps(), nil})
			}
		}
	}
	for _, t := range targets {
		for c := range t.comps {
			written[c] = true
		}
	}
	hh := heap.clone()
	all := map[string]bool{}
	objs := map[string]map[string]bool{} // ref term -> comps
	for _, t := range targets {
		if t.v == nil {
			for c := range t.comps {
				all[c] = true
			}
			continue
		}
		r, ok := vc.refAtHead(li, t.v, heap, written)
		if !ok {
			for c := range t.comps {
				all[c] = true
			}
			continue
		}
		if objs[r] == nil {
			objs[r] = map[string]bool{}
		}
		for c := range t.comps {
			objs[r][c] = true
		}
	}
	if len(all) > 0 {
		if vc.ringMode {
			all["fe"] = true
		}
		names := sortedKeys(all)
		for _, c := range names {
			old := hh.m[c]
			hh.m[c] = vc.fresh("H", heapSort(c))
			vc.reassumeConsts(hh, c)
			for _, pr := range vc.privRefs {
				if objs[pr] != nil && objs[pr][c] {
					continue // written by the loop itself
				}
				vc.assume(sEq(sel(hh.m[c], pr), sel(old, pr)))
			}
		}
	}
	refs := make([]string, 0, len(objs))
	for r := range objs {
		refs = append(refs, r)
	}
	sort.Strings(refs)
	for _, r := range refs {
		cs := map[string]bool{}
		for c := range objs[r] {
			if !all[c] {
				cs[c] = true
			}
		}
		vc.havocObj(hh, r, cs)
	}
	na := vc.fresh("alloc", "Int")
	vc.assume(app(">=", na, heap.alloc))
	hh.alloc = na
	return hh
}

func sortedKeys(m map[string]bool) []string {
	ks := make([]string, 0, len(m))
	for k := range m {
		ks = append(ks, k)
	}
	sort.Strings(ks)
	return ks
}

func allComps() map[string]bool {
	m := map[string]bool{}
	for c := range compSorts {
		m[c] = true
	}
	return m
}

// resolveLineAsserts maps each `assert "marker"` clause to the first instruction at or after the marker line.
func (vc *VC) resolveLineAsserts() {
	if vc.c == nil || len(vc.c.LineAsserts) == 0 || vc.fn.Syntax() == nil {
		return
	}
	start := vc.e.fset.Position(vc.fn.Syntax().Pos())
	end := vc.e.fset.Position(vc.fn.Syntax().End())
	data, err := os.ReadFile(start.Filename)
	if err != nil {
		panic(specFail("cannot read " + start.Filename))
	}
	lines := strings.Split(string(data), "\n")
	for _, la := range vc.c.LineAsserts {
		la.target = nil
		mline := 0
		for ln := start.Line; ln <= end.Line && ln <= len(lines); ln++ {
			if strings.Contains(lines[ln-1], la.Marker) {
				mline = ln
				break
			}
		}
		if mline == 0 {
			panic(specFail(fmt.Sprintf("assert marker %q not found in %s", la.Marker, vc.fn.Name())))
		}
		bestLine := 1 << 30
		for _, b := range vc.fn.Blocks {
			for _, ins := range b.Instrs {
				if _, isPhi := ins.(*ssa.Phi); isPhi {
					continue
				}
				p := ins.Pos()
				if dr, ok := ins.(*ssa.DebugRef); ok {
					p = dr.Expr.Pos()
				}
				if !p.IsValid() {
					continue
				}
				l := vc.e.fset.Position(p).Line
				if l >= mline && l < bestLine {
					bestLine = l
					la.target = ins
				}
			}
		}
		if la.target == nil {
			panic(specFail(fmt.Sprintf("no instruction after assert marker %q in %s", la.Marker, vc.fn.Name())))
		}
	}
}

func (vc *VC) lineAsserts(ins ssa.Instruction) {
	if vc.c == nil {
		return
	}
	for _, la := range vc.c.LineAsserts {
		if la.target != ins {
			continue
		}
		from := len(vc.items)
		env := vc.entryEnv()
		env.heap = vc.cur.heap
		heapNow := vc.cur.heap
		env.local = func(name string) *Val { return vc.localAtInstr(name, ins, heapNow) }
		env.localFirst = true
		env.marks = vc.markHeaps
		// innermost enclosing loop head state
		var inner *loopInfo
		for _, lo := range vc.loops {
			if lo.blocks[ins.Block()] && lo.headHeap != nil && (inner == nil || len(lo.blocks) < len(inner.blocks)) {
				inner = lo
			}
		}
		if inner != nil {
			env.headHeap = inner.headHeap
		}
		t := vc.compileClause(env, la.Cl)
		if vc.markHeaps == nil {
			vc.markHeaps = map[string]*Heap{}
		}
		vc.markHeaps[la.Marker] = heapNow.clone()
		kind := "assert"
		if la.Cl.Label != "" {
			kind = "assert." + la.Cl.Label
		}
		ob := vc.oblige(kind, vc.cur.pc, t, ins.Pos(), fmt.Sprintf("at %q: %s", la.Marker, la.Cl.Src))
		ob.Scaffold = true
		if la.Cut {
			vc.cuts = append(vc.cuts, cutPoint{from: from, at: len(vc.items)})
		}
	}
}

package main

import (
	"fmt"
	"go/token"
	"go/types"
	"os"
	"path/filepath"
	"regexp"
	"sort"
	"strings"

	"golang.org/x/tools/go/packages"
	"golang.org/x/tools/go/ssa"
	"golang.org/x/tools/go/ssa/ssautil"
)

type Engine struct {
	repo            string
	modPath         string
	fset            *token.FileSet
	prog            *ssa.Program
	pkgs            []*packages.Package
	pkgDir          map[string]string
	contracts       map[string]*Contract
	pures           map[string]*PureFn
	lemmas          []*Lemma
	axioms          []string
	ufs             map[string]*UF
	funcIDs         map[*ssa.Function]int
	typeTags        map[string]int
	frames          map[*ssa.Function][]frameEntry
	frameBusy       map[*ssa.Function]bool
	constGlob       map[*ssa.Global]*globalInfo
	globScan        bool
	allFuncs        map[*ssa.Function]bool
	config          string
	orphanContracts []string
	kindFilter      *regexp.Regexp
}

type globalInfo struct {
	constant bool              // never written outside init
	cells    map[int64]string  // known initial cell values (SMT literal) by cell offset
	nonNil   bool              // interface/pointer global initialised non-nil
	fn       *ssa.Function     // function-valued global initialised with this function
	kinds    map[int64]*Layout // layout per known cell
}

var repoRoot = "/repo"

func relPath(p string) string {
	if strings.HasPrefix(p, repoRoot+"/") {
		return p[len(repoRoot)+1:]
	}
	return p
}

type LoadConfig struct {
	Name string
	Tags string
	Env  []string
}

var loadConfigs = map[string]LoadConfig{
	"G": {"G", "purego,verif", nil},
	"A": {"A", "verif", nil},
	"P": {"P", "purego,verif", []string{"GOARCH=arm64"}},
}

func newEngine(repo string, config string, patterns []string) (*Engine, error) {
	lc, ok := loadConfigs[config]
	if !ok {
		return nil, fmt.Errorf("unknown config %q", config)
	}
	repoRoot = repo
	e := &Engine{repo: repo, fset: token.NewFileSet(), pkgDir: map[string]string{}, contracts: map[string]*Contract{},
		pures: map[string]*PureFn{}, ufs: map[string]*UF{}, funcIDs: map[*ssa.Function]int{}, typeTags: map[string]int{},
		frames: map[*ssa.Function][]frameEntry{}, frameBusy: map[*ssa.Function]bool{}, constGlob: map[*ssa.Global]*globalInfo{}, config: config}
	env := append(os.Environ(), "GOFLAGS=-mod=mod", "GOPROXY=off", "GOSUMDB=off", "GOTOOLCHAIN=local")
	env = append(env, lc.Env...)
	cfg := &packages.Config{Mode: packages.LoadAllSyntax, Dir: repo, Fset: e.fset, BuildFlags: []string{"-tags=" + lc.Tags}, Env: env, Overlay: instantiationOverlay(repo)}
	pkgs, err := packages.Load(cfg, patterns...)
	if err != nil {
		return nil, err
	}
	nerr := 0
	packages.Visit(pkgs, nil, func(p *packages.Package) {
		for _, e := range p.Errors {
			fmt.Fprintf(os.Stderr, "load error: %v\n", e)
			nerr++
		}
	})
	if nerr > 0 {
		return nil, fmt.Errorf("%d package load errors", nerr)
	}
	e.pkgs = pkgs
	packages.Visit(pkgs, nil, func(p *packages.Package) {
		if len(p.GoFiles) > 0 {
			e.pkgDir[p.PkgPath] = filepath.Dir(p.GoFiles[0])
		}
		if p.Module != nil && p.Module.Dir == repo {
			e.modPath = p.Module.Path
		}
	})
	if e.modPath == "" {
		e.modPath = "github.com/cloudflare/circl"
	}
	prog, _ := ssautil.AllPackages(pkgs, ssa.InstantiateGenerics|ssa.GlobalDebug)
	prog.Build()
	e.prog = prog
	e.allFuncs = ssautil.AllFunctions(prog)
	// ssautil.AllFunctions is a linker-style reachability: methods of an unexported type that no loaded package
	// calls or converts to an interface (expander.expanderXOF, returned by its constructor as a concrete pointer)
	// are not in it. Add the methods of every non-generic named type declared in the module's packages.
	for _, p := range prog.AllPackages() {
		if p.Pkg == nil || !(p.Pkg.Path() == e.modPath || strings.HasPrefix(p.Pkg.Path(), e.modPath+"/")) {
			continue
		}
		for _, m := range p.Members {
			t, ok := m.(*ssa.Type)
			if !ok {
				continue
			}
			named, ok := t.Type().(*types.Named)
			if !ok || named.TypeParams().Len() > 0 || types.IsInterface(named) {
				continue
			}
			for _, T := range []types.Type{named, types.NewPointer(named)} {
				ms := prog.MethodSets.MethodSet(T)
				for i := 0; i < ms.Len(); i++ {
					if f := prog.MethodValue(ms.At(i)); f != nil && f.Blocks != nil {
						e.allFuncs[f] = true
					}
				}
			}
		}
	}
	return e, nil
}

var typeArgsRe = regexp.MustCompile(`\[[^\[\]]*\]`)

// fnKey: the contract key of a function: the name of its generic origin with type-parameter lists removed
// ("(*pkg.PrivateKey[K]).UnmarshalBinary" -> "(*pkg.PrivateKey).UnmarshalBinary").
func (e *Engine) fnKey(f *ssa.Function) string {
	if o := f.Origin(); o != nil {
		f = o
	}
	s := f.String()
	for strings.Contains(s, "[") {
		n := typeArgsRe.ReplaceAllString(s, "")
		if n == s {
			break
		}
		s = n
	}
	return s
}

func (e *Engine) funcID(f *ssa.Function) int {
	if id, ok := e.funcIDs[f]; ok {
		return id
	}
	id := len(e.funcIDs) + 1
	e.funcIDs[f] = id
	return id
}

func (e *Engine) typeTag(t types.Type) int {
	k := t.String()
	if id, ok := e.typeTags[k]; ok {
		return id
	}
	id := len(e.typeTags) + 1
	e.typeTags[k] = id
	return id
}

func (e *Engine) implPred(vc *VC, t types.Type) string {
	name := "implements_" + sanitize(t.String())
	if !vc.trusted["decl:"+name] {
		vc.trusted["decl:"+name] = true
		vc.decls = append(vc.decls, fmt.Sprintf("(declare-fun %s (Int) Bool)", name))
	}
	return name
}

func (e *Engine) contractFor(f *ssa.Function) *Contract {
	return e.contracts[e.fnKey(f)]
}

func (e *Engine) contractPkg(c *Contract) *ssa.Package {
	// package of the contract file (by directory)
	dir := filepath.Dir(c.File)
	for path, d := range e.pkgDir {
		if d == dir {
			for _, sp := range e.prog.AllPackages() {
				if sp.Pkg.Path() == path {
					return sp
				}
			}
		}
	}
	return nil
}

// ifaceContract: contract declared for an interface method, keyed "(pkgpath.Iface).Method".
func (e *Engine) ifaceContract(cc *ssa.CallCommon) *Contract {
	t := cc.Value.Type()
	if nt, ok := t.(*types.Named); ok && nt.Obj().Pkg() != nil {
		return e.contracts["("+nt.Obj().Pkg().Path()+"."+nt.Obj().Name()+")."+cc.Method.Name()]
	}
	if nt, ok := t.(*types.Named); ok && nt.Obj().Pkg() == nil { // e.g. error
		return e.contracts["("+nt.Obj().Name()+")."+cc.Method.Name()]
	}
	return nil
}

func (e *Engine) contractFrame(c *Contract, sig *types.Signature, invoke bool) []frameEntry {
	// conservative: object-level frames cannot be mapped without evaluating; treat as anywhere for loop havoc
	return []frameEntry{{allComps(), -1}}
}

func (e *Engine) nullableParam(f *ssa.Function, i int) bool {
	c := e.contractFor(f)
	if c == nil || c.Nullable == nil {
		return false
	}
	pn, _, _, _ := sigNames(f.Signature)
	return i < len(pn) && c.Nullable[pn[i]]
}

func (e *Engine) pkgByName(from *ssa.Package, name string) *ssa.Package {
	if from != nil {
		for _, imp := range from.Pkg.Imports() {
			if imp.Name() == name {
				return e.prog.Package(imp)
			}
		}
		if from.Pkg.Name() == name {
			return from
		}
	}
	// fall back to a unique package of that name in the module
	var found *ssa.Package
	for _, sp := range e.prog.AllPackages() {
		if sp.Pkg.Name() == name && strings.HasPrefix(sp.Pkg.Path(), e.modPath) {
			if found != nil {
				return nil
			}
			found = sp
		}
	}
	return found
}

// ---------- inferred frames (mod sets) ----------

type rootKind int

const (
	rootLocal rootKind = iota
	rootParam
	rootAny
)

func rootOf(v ssa.Value, depth int) (rootKind, int) {
	if depth > 50 {
		return rootAny, -1
	}
	switch v := v.(type) {
	case *ssa.Parameter:
		fn := v.Parent()
		for i, p := range fn.Params {
			if p == v {
				k, _, _ := scalarKind(p.Type())
				if k == KPtr || k == KSlice {
					return rootParam, i
				}
				return rootAny, -1
			}
		}
		return rootAny, -1
	case *ssa.Alloc:
		return rootLocal, -1
	case *ssa.MakeSlice:
		return rootLocal, -1
	case *ssa.FieldAddr:
		return rootOf(v.X, depth+1)
	case *ssa.IndexAddr:
		return rootOf(v.X, depth+1)
	case *ssa.Slice:
		return rootOf(v.X, depth+1)
	case *ssa.ChangeType:
		return rootOf(v.X, depth+1)
	case *ssa.SliceToArrayPointer:
		return rootOf(v.X, depth+1)
	case *ssa.Phi:
		rk, ri := rootLocal, -1
		for _, e := range v.Edges {
			if e == v {
				continue
			}
			k, i := rootOf(e, depth+8)
			switch {
			case k == rootAny:
				return rootAny, -1
			case k == rootParam:
				if rk == rootParam && ri != i {
					return rootAny, -1
				}
				rk, ri = rootParam, i
			}
		}
		return rk, ri
	case *ssa.Call:
		if b, ok := v.Call.Value.(*ssa.Builtin); ok && b.Name() == "append" {
			// in place or fresh
			return rootOf(v.Call.Args[0], depth+1)
		}
	}
	return rootAny, -1
}

func (e *Engine) frameOf(f *ssa.Function) []frameEntry {
	if fr, ok := e.frames[f]; ok {
		return fr
	}
	if c := e.contractFor(f); c != nil && c.HasAssigns && !c.AssignsAny && len(c.Assigns) == 0 {
		e.frames[f] = nil
		return nil
	}
	if c := e.contractFor(f); c != nil && c.HasAssigns && !c.AssignsAny && (len(f.Blocks) == 0 || c.Assumed) {
		// frame taken from the (assumed) contract: plain parameter names map to argument positions
		pn, _, _, _ := sigNames(f.Signature)
		var fr []frameEntry
		for _, cl := range c.Assigns {
			idx := -1
			if cl.N.Op == "id" {
				for i, n := range pn {
					if n == cl.N.Tok || (i == 0 && f.Signature.Recv() != nil && cl.N.Tok == "recv") {
						idx = i
					}
				}
			}
			fr = append(fr, frameEntry{allComps(), idx})
		}
		e.frames[f] = fr
		return fr
	}
	if len(f.Blocks) == 0 {
		if isPureExternal(f) {
			e.frames[f] = nil
			return nil
		}
		fr := []frameEntry{{allComps(), -1}}
		e.frames[f] = fr
		return fr
	}
	if e.frameBusy[f] {
		return []frameEntry{{allComps(), -1}}
	}
	e.frameBusy[f] = true
	defer delete(e.frameBusy, f)
	acc := map[int]map[string]bool{}
	add := func(arg int, comps map[string]bool) {
		if acc[arg] == nil {
			acc[arg] = map[string]bool{}
		}
		for c := range comps {
			acc[arg][c] = true
		}
	}
	addRoot := func(v ssa.Value, comps map[string]bool) {
		k, i := rootOf(v, 0)
		switch k {
		case rootParam:
			add(i, comps)
		case rootAny:
			add(-1, comps)
		}
	}
	for _, b := range f.Blocks {
		for _, ins := range b.Instrs {
			switch ins := ins.(type) {
			case *ssa.Store:
				addRoot(ins.Addr, layoutOf(ins.Val.Type()).Comps())
			case *ssa.Call:
				cc := ins.Common()
				if cc.IsInvoke() {
					add(-1, allComps())
					continue
				}
				switch cv := cc.Value.(type) {
				case *ssa.Builtin:
					switch cv.Name() {
					case "copy", "append", "clear":
						if st, ok := cc.Args[0].Type().Underlying().(*types.Slice); ok {
							addRoot(cc.Args[0], layoutOf(st.Elem()).Comps())
						}
					}
				case *ssa.Function:
					for _, fe := range e.frameOf(cv) {
						if fe.arg >= 0 && fe.arg < len(cc.Args) {
							addRoot(cc.Args[fe.arg], fe.comps)
						} else {
							add(-1, fe.comps)
						}
					}
				default:
					add(-1, allComps())
				}
			case *ssa.Defer, *ssa.Go:
				add(-1, allComps())
			}
		}
	}
	var fr []frameEntry
	keys := make([]int, 0, len(acc))
	for k := range acc {
		keys = append(keys, k)
	}
	sort.Ints(keys)
	for _, k := range keys {
		fr = append(fr, frameEntry{acc[k], k})
	}
	e.frames[f] = fr
	return fr
}

func isPureExternal(f *ssa.Function) bool {
	if f.Pkg == nil {
		return false
	}
	switch f.Pkg.Pkg.Path() {
	case "math/bits", "math", "unicode/utf8":
		return true
	}
	return false
}

// ---------- globals ----------

func (e *Engine) scanGlobals() {
	if e.globScan {
		return
	}
	e.globScan = true
	written := map[*ssa.Global]bool{}
	var rootGlobal func(v ssa.Value, d int) *ssa.Global
	rootGlobal = func(v ssa.Value, d int) *ssa.Global {
		if d > 20 {
			return nil
		}
		switch v := v.(type) {
		case *ssa.Global:
			return v
		case *ssa.FieldAddr:
			return rootGlobal(v.X, d+1)
		case *ssa.IndexAddr:
			return rootGlobal(v.X, d+1)
		case *ssa.Slice:
			return rootGlobal(v.X, d+1)
		}
		return nil
	}
	for f := range e.allFuncs {
		isInit := f.Name() == "init" || strings.HasPrefix(f.Name(), "init#")
		for _, b := range f.Blocks {
			for _, ins := range b.Instrs {
				switch ins := ins.(type) {
				case *ssa.Store:
					if g := rootGlobal(ins.Addr, 0); g != nil && !isInit {
						written[g] = true
					}
				default:
					// address escapes: a global (or an address derived from it) used as an operand of anything
					// other than address arithmetic / load / store-address
					for _, op := range ins.Operands(nil) {
						if *op == nil {
							continue
						}
						g := rootGlobal(*op, 0)
						if g == nil {
							continue
						}
						switch u := ins.(type) {
						case *ssa.FieldAddr, *ssa.IndexAddr, *ssa.DebugRef:
							continue
						case *ssa.UnOp:
							if u.Op == token.MUL {
								continue
							}
						case *ssa.Slice:
							// a slice of a global may be passed around; treat as escaping unless element reads only
							if !isInit && sliceEscapes(e, u) {
								written[g] = true
							}
							continue
						case *ssa.Call:
							if !isInit && !callReadsOnly(e, u, *op) {
								written[g] = true
							}
							continue
						}
						if !isInit {
							written[g] = true
						}
					}
				}
			}
		}
	}
	for _, sp := range e.prog.AllPackages() {
		for _, m := range sp.Members {
			g, ok := m.(*ssa.Global)
			if !ok {
				continue
			}
			gi := &globalInfo{constant: !written[g], cells: map[int64]string{}, kinds: map[int64]*Layout{}}
			e.constGlob[g] = gi
		}
		// initial values from the package initialiser
		if init := sp.Func("init"); init != nil {
			e.scanInit(init)
		}
	}
}

func sliceEscapes(e *Engine, s *ssa.Slice) bool {
	refs := s.Referrers()
	if refs == nil {
		return true
	}
	for _, r := range *refs {
		switch r := r.(type) {
		case *ssa.IndexAddr, *ssa.DebugRef:
		case *ssa.Call:
			if b, ok := r.Call.Value.(*ssa.Builtin); ok && (b.Name() == "len" || b.Name() == "cap") {
				continue
			}
			if b, ok := r.Call.Value.(*ssa.Builtin); ok && b.Name() == "copy" && r.Call.Args[1] == ssa.Value(s) && r.Call.Args[0] != ssa.Value(s) {
				continue
			}
			if callReadsOnly(e, r, s) {
				continue
			}
			return true
		default:
			return true
		}
	}
	return false
}

func callReadsOnly(e *Engine, c *ssa.Call, arg ssa.Value) bool {
	f := c.Call.StaticCallee()
	if f == nil {
		return false
	}
	if f.Pkg != nil {
		switch f.Pkg.Pkg.Path() {
		case "encoding/binary":
			if strings.HasPrefix(f.Name(), "Uint") {
				return true
			}
		case "bytes", "crypto/subtle":
			switch f.Name() {
			case "Equal", "ConstantTimeCompare", "Compare":
				return true
			}
		}
	}
	for i, a := range c.Call.Args {
		if a != arg {
			continue
		}
		for _, fe := range e.frameOf(f) {
			if fe.arg == i || fe.arg < 0 {
				return false
			}
		}
	}
	return true
}

func (e *Engine) scanInit(init *ssa.Function) {
	for _, b := range init.Blocks {
		for _, ins := range b.Instrs {
			st, ok := ins.(*ssa.Store)
			if !ok {
				continue
			}
			// direct store of interface/pointer value
			if g, ok := st.Addr.(*ssa.Global); ok {
				gi := e.constGlob[g]
				if gi == nil {
					continue
				}
				switch v := st.Val.(type) {
				case *ssa.Function:
					gi.fn = v
					gi.nonNil = true
				case *ssa.MakeInterface:
					gi.nonNil = true
				case *ssa.Call:
					if f := v.Call.StaticCallee(); f != nil {
						switch f.String() {
						case "errors.New", "fmt.Errorf":
							gi.nonNil = true
						}
					}
				case *ssa.Alloc:
					gi.nonNil = true
				case *ssa.Const:
					if v.Value != nil {
						if k, w, _ := scalarKind(v.Type()); k == KBV {
							gi.cells[0] = bvLit(w, bigOfConst(v))
							gi.kinds[0] = layoutOf(v.Type())
						}
					}
				}
				continue
			}
			// element store: *(&g[i]...) = const
			off, g, ok := constAddr(st.Addr)
			if !ok {
				continue
			}
			gi := e.constGlob[g]
			if gi == nil {
				continue
			}
			if c, ok := st.Val.(*ssa.Const); ok && c.Value != nil {
				if k, w, _ := scalarKind(c.Type()); k == KBV {
					gi.cells[off] = bvLit(w, bigOfConst(c))
					gi.kinds[off] = layoutOf(c.Type())
				}
			}
		}
	}
}

// constAddr resolves address chains with constant indices rooted at a global.
func constAddr(v ssa.Value) (int64, *ssa.Global, bool) {
	switch v := v.(type) {
	case *ssa.Global:
		return 0, v, true
	case *ssa.FieldAddr:
		o, g, ok := constAddr(v.X)
		if !ok {
			return 0, nil, false
		}
		st := v.X.Type().Underlying().(*types.Pointer).Elem()
		return o + layoutOf(st).Fields[v.Field], g, true
	case *ssa.IndexAddr:
		o, g, ok := constAddr(v.X)
		if !ok {
			return 0, nil, false
		}
		c, isc := v.Index.(*ssa.Const)
		if !isc || c.Value == nil {
			return 0, nil, false
		}
		pt, isp := v.X.Type().Underlying().(*types.Pointer)
		if !isp {
			return 0, nil, false
		}
		at := pt.Elem().Underlying().(*types.Array)
		return o + c.Int64()*layoutOf(at.Elem()).N, g, true
	}
	return 0, nil, false
}

// globalFacts asserts what is known about an effectively-constant global's initial contents.
func (e *Engine) globalFacts(vc *VC, g *ssa.Global, ref string) {
	e.scanGlobals()
	gi := e.constGlob[g]
	if gi == nil || !gi.constant {
		return
	}
	// a never-written global whose address does not escape cannot be the target of a pointer the function
	// receives
	for _, kr := range vc.knownRefs {
		vc.decls = append(vc.decls, fmt.Sprintf("(assert (not (= %s %s)))", kr, ref))
	}
	et := g.Type().Underlying().(*types.Pointer).Elem()
	l := layoutOf(et)
	comps := l.Comps()
	for c := range comps {
		vc.consts = append(vc.consts, constFact{c, ref, vc.heap0.m[c]})
	}
	if gi.nonNil {
		switch l.Kind {
		case KIface:
			vc.decls = append(vc.decls, fmt.Sprintf("(assert (not (= (select (select %s %s) %s) 0)))", vc.heap0.m["i.t"], ref, off64(0)))
		case KPtr:
			vc.decls = append(vc.decls, fmt.Sprintf("(assert (not (= (select (select %s %s) %s) 0)))", vc.heap0.m["p.r"], ref, off64(0)))
		}
	}
	if len(gi.cells) > 0 && len(gi.cells) <= 4096 {
		offs := make([]int64, 0, len(gi.cells))
		for o := range gi.cells {
			offs = append(offs, o)
		}
		sort.Slice(offs, func(i, j int) bool { return offs[i] < offs[j] })
		for _, o := range offs {
			cl := gi.kinds[o]
			comp := compsOf(cl.Kind, cl.W)[0].name
			cv := gi.cells[o]
			if vc.intMode {
				n, _, _ := asLit(cv)
				if cl.Signed {
					n = toSigned(n, cl.W)
				}
				cv = intLit(n)
				if cl.W == 64 && n.Sign() > 0 && n.BitLen() > 1 {
					if vc.knownNumerals == nil {
						vc.knownNumerals = map[string]bool{}
					}
					vc.knownNumerals[cv] = true
				}
			}
			vc.decls = append(vc.decls, fmt.Sprintf("(assert (= (select (select %s %s) %s) %s))", vc.heap0.m[comp], ref, off64(o), cv))
		}
		vc.note("initial contents of constant global %s taken from package init (%d cells)", g.Name(), len(gi.cells))
	}
}

// instantiationOverlay: contract files may contain `//@ instantiate F[T1], G[T2]` lines; each produces a
// virtual file in that package referencing the instances, so that go/ssa builds (and govc verifies) the
// instantiated bodies of generic functions instead of the type-parametric origin.
func instantiationOverlay(repo string) map[string][]byte {
	out := map[string][]byte{}
	filepath.Walk(repo, func(path string, info os.FileInfo, err error) error {
		if err != nil {
			return nil
		}
		if info.IsDir() {
			if strings.HasPrefix(info.Name(), ".") && path != repo {
				return filepath.SkipDir
			}
			return nil
		}
		name := info.Name()
		if !strings.HasPrefix(name, "zz_contracts") || !strings.HasSuffix(name, "_verif.go") {
			return nil
		}
		data, err := os.ReadFile(path)
		if err != nil {
			return nil
		}
		var insts []string
		pkgName := ""
		for _, ln := range strings.Split(string(data), "\n") {
			t := strings.TrimSpace(ln)
			if strings.HasPrefix(t, "package ") && pkgName == "" {
				pkgName = strings.TrimSpace(t[8:])
			}
			if strings.HasPrefix(t, "//@ instantiate ") {
				for _, x := range splitTop(strings.TrimSpace(t[len("//@ instantiate "):])) {
					if x != "" {
						insts = append(insts, x)
					}
				}
			}
		}
		if len(insts) == 0 || pkgName == "" {
			return nil
		}
		var b strings.Builder
		b.WriteString("//go:build verif\n\npackage " + pkgName + "\n\n")
		for _, x := range insts {
			b.WriteString("var _ = " + x + "\n")
		}
		out[filepath.Join(filepath.Dir(path), "zz_instances_"+strings.TrimSuffix(name, ".go")+".go")] = []byte(b.String())
		return nil
	})
	return out
}

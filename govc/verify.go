package main

import (
	"fmt"
	"os"
	"runtime/debug"
	"sort"
	"strings"
	"sync"
	"time"

	"golang.org/x/tools/go/ssa"
)

func (e *Engine) newVC(fn *ssa.Function, c *Contract, dropped map[string]bool) *VC {
	return e.newVCMode(fn, c, dropped, "")
}

func (e *Engine) newVCMode(fn *ssa.Function, c *Contract, dropped map[string]bool, mode string) *VC {
	vc := &VC{e: e, fn: fn, c: c, vals: map[ssa.Value]*Val{}, globals: map[*ssa.Global]string{}, strlits: map[string]string{},
		obCount: map[string]int{}, dropped: dropped, trusted: map[string]bool{}, callees: map[string]bool{}, csHit: map[*CallSite]bool{}, obReturn: map[*Obligation]*ssa.Return{}}
	if mode == "" && c != nil && (c.Mode == "int" || c.Mode == "ring") {
		mode = c.Mode
	}
	vc.intMode = mode == "int" || mode == "ring"
	vc.ringMode = mode == "ring"
	vc.heap0 = vc.newHeap0()
	vc.decls = append(vc.decls, "(assert (< 0 alloc0))")
	return vc
}

var genMu sync.Mutex

func (e *Engine) genVC(fn *ssa.Function, dropped map[string]bool, mode string) (vc *VC, err error) {
	genMu.Lock()
	defer genMu.Unlock()
	c := e.contractFor(fn)
	if mode == "" && c != nil && (c.Mode == "int" || c.Mode == "ring") {
		mode = c.Mode
	}
	genIntMode = mode == "int" || mode == "ring"
	genRingMode = mode == "ring"
	defer func() { genIntMode, genRingMode = false, false }()
	vc = e.newVCMode(fn, c, dropped, mode)
	defer func() {
		if r := recover(); r != nil {
			if sf, ok := r.(specFail); ok {
				err = fmt.Errorf("contract error: %s", string(sf))
				return
			}
			err = fmt.Errorf("generator error: %v\n%s", r, lastLines(string(debug.Stack()), 14))
		}
	}()
	vc.run()
	if c != nil {
		anyHit := false
		for _, cs := range c.CallSites {
			anyHit = anyHit || vc.csHit[cs]
		}
		for _, cs := range c.CallSites {
			// a clause labelled opt-* names a call that exists only in some build configurations (assembly back end
			// vs portable fallback); it may be absent as long as some callsite clause of the function applies.
			if !vc.csHit[cs] && cs.Cl != nil && strings.HasPrefix(cs.Cl.Label, "opt-") && anyHit {
				continue
			}
			if !vc.csHit[cs] {
				return vc, fmt.Errorf("contract error: callsite %s#%d not found in %s", cs.Name, cs.K, fn)
			}
		}
	}
	return vc, nil
}

func lastLines(s string, n int) string {
	ls := strings.Split(s, "\n")
	// skip the runtime frames at the top
	if len(ls) > 8 {
		ls = ls[6:]
	}
	if len(ls) > n {
		ls = ls[:n]
	}
	return strings.Join(ls, "\n")
}

// verifyFunc generates and discharges all obligations of one function, in every integer mode its contract
// has clauses for (its own mode first).
func (e *Engine) verifyFunc(fn *ssa.Function, cfg SolverCfg) *FuncResult {
	modes := []string{""}
	if c := e.contractFor(fn); c != nil {
		modes = c.modes()
	}
	var res *FuncResult
	for i, m := range modes {
		r := e.verifyFuncMode(fn, cfg, m)
		if i == 0 {
			res = r
			continue
		}
		// merge: obligations of the secondary mode are renamed with a mode suffix
		for _, o := range r.Obs {
			o.Ob.Name += "@" + m
			res.Obs = append(res.Obs, o)
		}
		res.Notes = append(res.Notes, r.Notes...)
		if r.GenError != "" && res.GenError == "" {
			res.GenError = "[" + m + " mode] " + r.GenError
		}
		if r.PreSat == "unsat" {
			res.PreSat = "unsat"
		}
		res.Vacuous = append(res.Vacuous, r.Vacuous...)
		res.Seconds += r.Seconds
	}
	return res
}

func (e *Engine) verifyFuncMode(fn *ssa.Function, cfg SolverCfg, mode string) *FuncResult {
	t0 := time.Now()
	res := &FuncResult{Fn: fn.String(), Key: fn.String()}
	dropped := map[string]bool{}
	var vc *VC
	var err error
	base := fileBaseFor(res.Key) + mode
	for iter := 0; ; iter++ {
		res.Iter = iter
		vc, err = e.genVC(fn, dropped, mode)
		if err != nil {
			res.GenError = err.Error()
			res.Seconds = time.Since(t0).Seconds()
			return res
		}
		// houdini pass over candidate obligations
		hasCand := false
		for _, ob := range vc.obs {
			if ob.Candidate > 0 && ob.Term != "true" {
				hasCand = true
			}
		}
		if !hasCand {
			break
		}
		script, checked := vc.buildScript(true)
		file := writeFile(cfg.WorkDir, base+".houdini.smt2", script)
		out, _ := runSolver(solvers[0], file, 3000, time.Duration(3000*len(checked)+10000)*time.Millisecond)
		rs := parseResults(out)
		changed := false
		for i, ob := range checked {
			st := "unknown"
			if i < len(rs) {
				st = rs[i]
			}
			if st != "unsat" {
				if !dropped[ob.Desc] {
					dropped[ob.Desc] = true
					changed = true
				}
			}
		}
		if !changed {
			break
		}
		if iter > 40 {
			break
		}
	}
	if e.kindFilter != nil {
		for _, ob := range vc.obs {
			if !e.kindFilter.MatchString(ob.Kind) && ob.Candidate == 0 && !strings.HasPrefix(ob.Kind, "inv-") {
				ob.Skip = true
			}
		}
	}
	res.vc = vc
	res.Notes = vc.notes
	res.Inputs = vc.inputs
	for k := range dropped {
		res.Dropped = append(res.Dropped, k)
	}
	sort.Strings(res.Dropped)
	for k := range vc.callees {
		res.Callees = append(res.Callees, k)
	}
	sort.Strings(res.Callees)
	// main pass: all obligations in one incremental script; large functions are cut into contiguous chunks that
	// run in parallel (each chunk assumes the obligations before it, exactly as the single script does)
	script, checked := vc.buildScript(false)
	file := writeFile(cfg.WorkDir, base+".all.smt2", script)
	incT := 1500
	if cfg.TimeoutMS < incT {
		incT = cfg.TimeoutMS
	}
	var rs []string
	secs := 0.0
	nchunks := 1
	if len(checked) >= 80 {
		nchunks = len(checked) / 40
		if nchunks > 6 {
			nchunks = 6
		}
	}
	switch {
	case len(checked) == 0 || vc.ringMode || os.Getenv("GOVC_NOINC") != "": // ring mode: only the sliced, read-expanded single queries are tractable (GOVC_NOINC: diagnostic, singles only)
	case nchunks == 1:
		hard := time.Duration(incT*len(checked)+20000) * time.Millisecond
		if hard > 15*time.Minute {
			hard = 15 * time.Minute
		}
		var out string
		out, secs = runSolver(solvers[0], file, incT, hard)
		rs = parseResults(out)
	default:
		per := (len(checked) + nchunks - 1) / nchunks
		parts := make([][]string, nchunks)
		times := make([]float64, nchunks)
		var wg sync.WaitGroup
		for c := 0; c < nchunks; c++ {
			from, to := c*per, (c+1)*per
			if to > len(checked) {
				to = len(checked)
			}
			if from >= to {
				continue
			}
			sc, chk := vc.buildScriptRange(false, from, to)
			f := writeFile(cfg.WorkDir, fmt.Sprintf("%s.all%d.smt2", base, c), sc)
			wg.Add(1)
			go func(c int, f string, n int) {
				defer wg.Done()
				hard := time.Duration(incT*n+20000) * time.Millisecond
				out, t := runSolver(solvers[0], f, incT, hard)
				r := parseResults(out)
				for len(r) < n {
					r = append(r, "unknown")
				}
				parts[c] = r[:n]
				times[c] = t
				if os.Getenv("GOVC_KEEP") == "" {
					os.Remove(f)
				}
			}(c, f, len(chk))
		}
		wg.Wait()
		for c := 0; c < nchunks; c++ {
			rs = append(rs, parts[c]...)
			secs += times[c]
		}
	}
	ci := 0
	per := 0.0
	if len(checked) > 0 {
		per = secs / float64(len(checked))
	}
	type pending struct {
		idx int
		ob  *Obligation
	}
	var todo []pending
	for _, ob := range vc.obs {
		if ob.Term == "true" {
			res.Obs = append(res.Obs, &ObResult{Ob: ob, Status: "folded", Solver: "generator-constant-folding"})
			continue
		}
		if ob.Skip {
			continue // not claimed by this unit: assumed only (partial-correctness reading), not solved
		}
		st := "unknown"
		if ci < len(rs) {
			st = rs[ci]
		}
		ci++
		r := &ObResult{Ob: ob, Status: st, Solver: "z3-new", Seconds: per}
		res.Obs = append(res.Obs, r)
		if st != "unsat" {
			todo = append(todo, pending{len(res.Obs) - 1, ob})
		}
	}
	// obligations the incremental pass did not discharge are decided individually (racing all solvers, with
	// model), a few at a time
	if len(todo) > 0 {
		sem := make(chan struct{}, 3)
		var wg sync.WaitGroup
		for _, pd := range todo {
			wg.Add(1)
			sem <- struct{}{}
			go func(pd pending) {
				defer wg.Done()
				defer func() { <-sem }()
				res.Obs[pd.idx] = raceSingle(vc, pd.ob, cfg, base+"."+sanitize(pd.ob.Kind)+fmt.Sprint(pd.ob.idx))
			}(pd)
		}
		wg.Wait()
	}
	// second incremental pass (rescue): a query that neither the first pass nor the one-shot race decided (machine
	// load, a cancelled command) is often easy in the incremental context (lemmas learned from the earlier queries)
	// and hard as a one-shot query; pose the whole sequence once more with a longer per-query cap
	if len(checked) > 0 && !vc.ringMode && os.Getenv("GOVC_NOINC") == "" {
		var undec []int // indices into checked
		pos := map[*Obligation]int{}
		for i, ob := range checked {
			pos[ob] = i
		}
		byOb := map[*Obligation]*ObResult{}
		for _, r := range res.Obs {
			byOb[r.Ob] = r
		}
		for _, ob := range checked {
			if r := byOb[ob]; r != nil && r.Status != "unsat" && r.Status != "sat" && r.Status != "folded" {
				undec = append(undec, pos[ob])
			}
		}
		if len(undec) > 0 && len(undec) <= 8 {
			t2 := 4 * incT
			out2, secs2 := runSolver(solvers[0], file, t2, time.Duration(incT*len(checked)+t2*len(undec)+20000)*time.Millisecond)
			rs2 := parseResults(out2)
			fixed := 0
			for _, i := range undec {
				if i < len(rs2) && rs2[i] == "unsat" {
					r := byOb[checked[i]]
					r.Status, r.Solver, r.Seconds = "unsat", "z3-new", secs2/float64(len(checked))
					fixed++
				}
			}
			if os.Getenv("GOVC_TRACE") != "" {
				fmt.Fprintf(os.Stderr, "second pass %s: undecided=%d of %d, %.1fs, rescued %d\n", vc.fn.Name(), len(undec), len(checked), secs2, fixed)
			}
		}
	}
	// vacuity: preconditions satisfiable
	res.PreSat = e.checkPreSat(vc, cfg, base)
	proved := map[*Obligation]bool{}
	for _, o := range res.Obs {
		if o.Status == "unsat" || o.Status == "folded" {
			proved[o.Ob] = true
		}
	}
	allProved := true
	for _, o := range res.Obs {
		if !proved[o.Ob] {
			allProved = false // reported on its own; what follows a failed obligation is checked under its assumption anyway
		}
	}
	if allProved {
		res.Vacuous = e.checkReach(vc, cfg, base, proved)
	}
	res.Notes = append([]string{}, vc.notes...)
	res.Seconds = time.Since(t0).Seconds()
	if os.Getenv("GOVC_KEEP") == "" {
		os.Remove(file)
	}
	return res
}

// checkPreSat: declarations + assumptions made at function entry must be satisfiable.
func (e *Engine) checkPreSat(vc *VC, cfg SolverCfg, base string) string {
	if vc.c == nil || len(vc.c.Requires) == 0 {
		return "n/a"
	}
	var b strings.Builder
	for i, it := range vc.items {
		if i >= vc.entryItems {
			break
		}
		if it.Ob == nil {
			b.WriteString(it.Text + "\n")
		}
	}
	b.WriteString("(check-sat)\n")
	file := writeFile(cfg.WorkDir, base+".presat.smt2", finishScript(vc.decls, b.String()))
	defer os.Remove(file)
	out, _ := runSolver(solvers[0], file, 5000, 10*time.Second)
	rs := parseResults(out)
	if len(rs) == 0 {
		return "unknown"
	}
	return rs[0]
}

// checkReach is the vacuity guard behind the hypotheses collected along a path (callee postconditions, loop
// invariants, frames, built-in facts): the program point of every call-site assertion, marker assertion and loop
// invariant must be reachable, i.e. its path condition must be satisfiable together with everything assumed before
// it, and at least one return must be reachable. A contradictory set of hypotheses otherwise "proves" everything
// after it. Only a definite `unsat` counts; sat/unknown/timeouts pass.
func (e *Engine) checkReach(vc *VC, cfg SolverCfg, base string, proved map[*Obligation]bool) []string {
	// phase 1 asks only the cheap-to-refute questions ("is the path still feasible after this assumption", "is this
	// return reachable") with a short timeout; only if one of them is answered `unsat` does phase 2 pose the full
	// set (including "was the path feasible before") with a longer one.
	vac, suspicious := e.reachPhase(vc, cfg, base, proved, 1, 150)
	if !suspicious {
		return vac
	}
	vac, _ = e.reachPhase(vc, cfg, base, proved, 2, 1000)
	return vac
}

func (e *Engine) reachPhase(vc *VC, cfg SolverCfg, base string, proved map[*Obligation]bool, phase, tmo int) ([]string, bool) {
	var b strings.Builder
	for _, ax := range vc.e.axioms {
		b.WriteString("(assert " + ax + ")\n")
	}
	type q struct {
		name string
		ret  bool
	}
	var qs []q
	seen := map[string]bool{}
	ask := func(pc, name string, ret bool) {
		if pc == "" || pc == "true" || pc == "false" || seen[pc] || len(qs) >= 80 {
			return
		}
		seen[pc] = true
		b.WriteString("(push 1)\n(assert " + pc + ")\n(check-sat)\n(pop 1)\n")
		qs = append(qs, q{name, ret})
	}
	type pairQ struct {
		before, after int // indices into qs (-1: none)
		what          string
	}
	var pairs []*pairQ
	lastLen, lastPC, lastIdx := -1, "", -1
	askAlways := func(pc, name string) int {
		if pc == "" || pc == "false" || len(qs) >= 70 {
			return -1
		}
		if phase == 1 && strings.HasPrefix(name, "before:") {
			return -1
		}
		if b.Len() == lastLen && pc == lastPC {
			return lastIdx // nothing was assumed since the same question was asked
		}
		defer func() { lastLen, lastPC, lastIdx = b.Len(), pc, len(qs)-1 }()
		if pc == "true" {
			b.WriteString("(push 1)\n(check-sat)\n(pop 1)\n")
		} else {
			b.WriteString("(push 1)\n(assert " + pc + ")\n(check-sat)\n(pop 1)\n")
		}
		qs = append(qs, q{name, false})
		return len(qs) - 1
	}
	open := map[int]*pairQ{}
	trivialReturn := false
	for i, it := range vc.items {
		for k := range vc.applyMarks {
			m := &vc.applyMarks[k]
			if m.to > m.from && m.from == i && len(pairs) < 40 {
				pq := &pairQ{before: askAlways(m.pc, "before:"+m.what), after: -1, what: m.what}
				pairs = append(pairs, pq)
				open[k] = pq
			}
			if m.to > m.from && m.to == i {
				if pq := open[k]; pq != nil {
					pq.after = askAlways(m.pc, "after:"+m.what)
				}
			}
		}
		for _, m := range vc.returnMarks {
			if m.at == i {
				if m.pc == "true" {
					trivialReturn = true
				}
				ask(m.pc, "return", true)
			}
		}
		if it.Ob == nil {
			b.WriteString(it.Text + "\n")
			continue
		}
		ob := it.Ob
		if ob.Skip && ob.Term != "true" && ob.PC != "" && ob.PC != "false" && len(pairs) < 60 &&
			!strings.HasPrefix(ob.Kind, "safety.panic") && !strings.HasPrefix(ob.Kind, "unwind") && !strings.HasSuffix(ob.Term, " false)") {
			// (a panic-unreachable obligation states that its own point is infeasible: nothing to guard there)
			// an obligation outside the unit's claim is assumed, not proved: assuming it must not make its own
			// program point unreachable (it would, if it fails on every path through that point)
			pq := &pairQ{before: askAlways(ob.PC, "before:"+ob.Name), after: -1, what: "assuming the unclaimed obligation " + ob.Name}
			b.WriteString("(assert " + ob.Term + ")\n")
			pq.after = askAlways(ob.PC, "after:"+ob.Name)
			pairs = append(pairs, pq)
			continue
		}
		if ob.Term != "true" && (proved[ob] || ob.Skip) {
			// only what has been discharged (or is outside this unit's claim) is assumed: an obligation that failed
			// is reported as such, and must not in addition make what follows look unreachable
			b.WriteString("(assert " + ob.Term + ")\n")
		}
	}
	for k := range vc.applyMarks {
		m := &vc.applyMarks[k]
		if m.to > m.from && m.to >= len(vc.items) {
			if pq := open[k]; pq != nil && pq.after < 0 {
				pq.after = askAlways(m.pc, "after:"+m.what)
			}
		}
	}
	for _, m := range vc.returnMarks {
		if m.at >= len(vc.items) {
			if m.pc == "true" {
				trivialReturn = true
			}
			ask(m.pc, "return", true)
		}
	}
	if len(qs) == 0 {
		return nil, false
	}
	file := writeFile(cfg.WorkDir, fmt.Sprintf("%s.reach%d.smt2", base, phase), finishScript(vc.decls, b.String()))
	if os.Getenv("GOVC_KEEP") == "" {
		defer os.Remove(file)
	}
	out, _ := runSolver(solvers[0], file, tmo, time.Duration(tmo*len(qs)+15000)*time.Millisecond)
	rs := parseResults(out)
	var vac []string
	suspicious := false
	rets, deadRets := 0, 0
	for i, qq := range qs {
		st := "unknown"
		if i < len(rs) {
			st = rs[i]
		}
		if qq.ret {
			rets++
			if st == "unsat" {
				deadRets++
			}
		}
	}
	// a callee contract (or an assumed unclaimed obligation) whose application turns a feasible path into an
	// infeasible one contradicts what is known at that point (inconsistent contract or built-in facts)
	for _, pq := range pairs {
		if pq.after < 0 || pq.after >= len(rs) || rs[pq.after] != "unsat" {
			continue
		}
		suspicious = true
		if pq.before >= 0 && pq.before < len(rs) && rs[pq.before] != "unsat" {
			vac = append(vac, vc.fn.String()+"#inconsistent: "+pq.what+" makes the path infeasible")
		}
	}
	if rets > 0 && deadRets == rets && !trivialReturn {
		suspicious = true
		vac = append(vac, vc.fn.String()+"#return (no return is reachable)")
	}
	return vac, suspicious
}

package main

import (
	"fmt"
	"go/token"
	"go/types"
	"sort"
	"strings"

	"golang.org/x/tools/go/ssa"
)

type frameEntry struct {
	comps map[string]bool
	arg   int // index into call args (receiver first for static calls); -1 = anywhere
}

// sigNames returns parameter names (receiver first) and result names of a signature.
func sigNames(sig *types.Signature) (params []string, ptypes []types.Type, results []string, rtypes []types.Type) {
	if r := sig.Recv(); r != nil {
		params = append(params, r.Name())
		ptypes = append(ptypes, r.Type())
	}
	for i := 0; i < sig.Params().Len(); i++ {
		params = append(params, sig.Params().At(i).Name())
		ptypes = append(ptypes, sig.Params().At(i).Type())
	}
	for i := 0; i < sig.Results().Len(); i++ {
		results = append(results, sig.Results().At(i).Name())
		rtypes = append(rtypes, sig.Results().At(i).Type())
	}
	return
}

// contractEnv builds a spec environment for a callee signature with given argument/result values.
func (vc *VC) contractEnv(callee *ssa.Function, sig *types.Signature, args []*Val, results []*Val, heap, old *Heap) *Env {
	env := &Env{vc: vc, vars: map[string]*Val{}, heap: heap, old: old}
	if callee != nil {
		env.pkg = callee.Pkg
		if env.pkg == nil && callee.Origin() != nil {
			env.pkg = callee.Origin().Pkg
		}
	}
	pn, _, rn, _ := sigNames(sig)
	for i, n := range pn {
		if i < len(args) {
			if n != "" && n != "_" {
				env.vars[n] = args[i]
			}
			if i == 0 && sig.Recv() != nil {
				env.vars["recv"] = args[i]
			}
			env.vars[fmt.Sprintf("arg%d", i)] = args[i]
		}
	}
	if results != nil {
		for i, n := range rn {
			if i < len(results) {
				if n != "" && n != "_" {
					env.vars[n] = results[i]
				}
				env.vars[fmt.Sprintf("result%d", i)] = results[i]
			}
		}
		if len(results) == 1 {
			env.vars["result"] = results[0]
		}
	}
	return env
}

func (vc *VC) entryEnv() *Env {
	env := vc.contractEnv(vc.fn, vc.fn.Signature, vc.paramVals, nil, vc.heap0, vc.heap0)
	return env
}

// entry declares parameters and assumes preconditions.
func (vc *VC) entry() {
	fn := vc.fn
	h := vc.cur.heap
	for i, p := range fn.Params {
		v := vc.symVal("p_"+sanitize(p.Name()), p.Type(), h)
		vc.vals[p] = v
		vc.paramVals = append(vc.paramVals, v)
		if v.K == KPtr || v.K == KSlice {
			vc.knownRefs = append(vc.knownRefs, v.C[0])
		}
		vc.inputs = append(vc.inputs, inputDesc{Name: p.Name(), Type: p.Type().String(), V: v})
		// API convention: pointer parameters and receivers are non-nil (checked at verified call sites)
		if v.K == KPtr && !isUnsafePtr(p.Type()) && !(vc.c != nil && vc.c.Nullable[p.Name()]) {
			vc.assume(sNot(sEq(v.C[0], "0")))
		}
		_ = i
	}
	// a by-value aggregate parameter is the callee's own copy: no other parameter and no reference stored in the
	// entry heap (closedEntryHeap) denotes its storage
	for _, p := range fn.Params {
		if a := vc.vals[p]; a.K == KAgg {
			for _, q := range fn.Params {
				b := vc.vals[q]
				if q == p {
					continue
				}
				switch b.K {
				case KPtr, KSlice, KString, KAgg:
					vc.assume(sNot(sEq(a.C[0], b.C[0])))
				case KIface:
					vc.assume(sNot(sEq(a.C[0], b.C[1])))
				}
			}
			vc.privateEntry = append(vc.privateEntry, a.C[0])
		}
	}
	// typed pointers of identical element type are equal or do not overlap (no partially overlapping views)
	for i, p := range fn.Params {
		for j := i + 1; j < len(fn.Params); j++ {
			q := fn.Params[j]
			a, b := vc.vals[p], vc.vals[q]
			if a.K != KPtr || b.K != KPtr || isUnsafePtr(p.Type()) || !types.Identical(p.Type(), q.Type()) {
				continue
			}
			n := layoutOf(p.Type().Underlying().(*types.Pointer).Elem()).N
			if n <= 1 {
				continue
			}
			vc.assume(sOr(sNot(sEq(a.C[0], b.C[0])), sEq(a.C[1], b.C[1]),
				app("bvule", bvBin("bvadd", a.C[1], off64(n)), b.C[1]),
				app("bvule", bvBin("bvadd", b.C[1], off64(n)), a.C[1])))
		}
	}
	for _, fv := range fn.FreeVars {
		v := vc.symVal("fv_"+sanitize(fv.Name()), fv.Type(), h)
		vc.vals[fv] = v
		if v.K == KPtr {
			vc.assume(sNot(sEq(v.C[0], "0")))
		}
	}
	if vc.c != nil {
		env := vc.entryEnv()
		for _, cl := range vc.c.Requires {
			if vc.c.clauseMode(cl) != vc.modeName() {
				continue
			}
			if vc.ringMode && strings.Contains(cl.Src, "fe(") {
				// the transfer of a ring-mode proof to GF(p) is the transfer of polynomial identities; a
				// hypothesis on ring values would make it an implication between equations, which does not transfer
				panic(fmt.Sprintf("ring mode: a precondition may not constrain ring values: %s", cl.Src))
			}
			vc.assume(vc.compileClause(env, cl))
		}
	}
	vc.entryItems = len(vc.items)
	vc.afterEntry = true
}

func (vc *VC) compileClause(env *Env, cl *Clause) (t string) {
	defer func() {
		if r := recover(); r != nil {
			if sf, ok := r.(specFail); ok {
				panic(specFail(fmt.Sprintf("%s:%d: %s", relPath(cl.File), cl.Line, string(sf))))
			}
			panic(r)
		}
	}()
	return vc.compileBool(env, cl.N)
}

func (vc *VC) execReturn(ins *ssa.Return) {
	vc.returnMarks = append(vc.returnMarks, reachMark{at: len(vc.items), pc: vc.cur.pc, pos: int(ins.Pos())})
	if vc.c == nil {
		return
	}
	var res []*Val
	for _, r := range ins.Results {
		res = append(res, vc.val(r))
	}
	env := vc.contractEnv(vc.fn, vc.fn.Signature, vc.paramVals, res, vc.cur.heap, vc.heap0)
	for i, cl := range vc.c.Ensures {
		if vc.c.clauseMode(cl) != vc.modeName() || cl.Mode == "ringax" {
			continue
		}
		t := vc.compileClause(env, cl)
		kind := "post"
		if cl.Label != "" {
			kind = "post." + cl.Label
		} else {
			kind = fmt.Sprintf("post.e%d", i+1)
		}
		ob := vc.oblige(kind, vc.cur.pc, t, ins.Pos(), "ensures "+cl.Src)
		vc.obReturn[ob] = ins
	}
}

// regionOf: the cells an assigns target denotes: (ref, first cell, number of cells). Pointers denote their
// pointee, slices their full capacity window; anything else the whole object (ncells == "").
func (vc *VC) regionOf(v *Val) (r, o, n string) {
	switch v.K {
	case KPtr:
		if v.T != nil {
			if pt, ok := v.T.Underlying().(*types.Pointer); ok {
				return v.C[0], v.C[1], off64(layoutOf(pt.Elem()).N)
			}
		}
	case KSlice:
		if v.T != nil {
			if st, ok := v.T.Underlying().(*types.Slice); ok {
				return v.C[0], v.C[1], mulOff(v.C[3], layoutOf(st.Elem()).N)
			}
		}
	}
	return vc.refOf(v), "", ""
}

func (vc *VC) inRegion(v *Val, r, o string) string {
	vr, vo, vn := vc.regionOf(v)
	if vn == "" || o == "" {
		return sEq(r, vr)
	}
	return sAnd(sEq(r, vr), bvCmp("bvult", bvBin("bvsub", o, vo), vn))
}

// checkFrame: a store to cell (r,o) must be allowed by the assigns clause (or hit a fresh object).
func (vc *VC) checkFrame(r string, pos token.Pos, l *Layout) {
	vc.checkFrameAt(r, "", pos)
}

func (vc *VC) checkFrameAt(r, o string, pos token.Pos) {
	if vc.c == nil || !vc.c.HasAssigns || vc.c.AssignsAny {
		return
	}
	env := vc.entryEnv()
	alts := []string{app(">=", r, vc.heap0.alloc)}
	for _, cl := range vc.c.Assigns {
		v := vc.compile(env, cl.N)
		alts = append(alts, vc.inRegion(v, r, o))
	}
	vc.oblige("frame", vc.cur.pc, sOr(alts...), pos, "store target is within the assigns clause or freshly allocated")
}

// havocRegion: the callee may write the cells denoted by assigns target v (and nothing else of that object).
func (vc *VC) havocRegion(h *Heap, v *Val) {
	r, o, n := vc.regionOf(v)
	if vc.ringMode {
		// the abstract ring values of the written elements. For a pointer target the elements that can be
		// written are those starting at the leaf arrays of the pointed-to type (typed pointers do not partially
		// overlap): one precise ghost store per element start. Windows of slices are havocked as a range.
		old := h.m["fe"]
		starts := []int64(nil)
		if v.K == KPtr && n != "" && o != "" {
			starts = leafStarts(layoutOf(v.T.Underlying().(*types.Pointer).Elem()), 0, nil)
		}
		switch {
		case len(starts) > 0 && len(starts) <= 64:
			for _, st := range starts {
				cell := bvBin("bvadd", o, off64(st))
				cur := h.m["fe"]
				h.m["fe"] = vc.define("H", heapSort("fe"), sto(cur, r, sto(sel(cur, r), cell, vc.fresh("fev", "Int"))))
			}
		case n != "" && o != "":
			inner := vc.fresh("A", innerSort("fe"))
			j := "j!"
			vc.assume(fmt.Sprintf("(forall ((%s (_ BitVec 64))) (! (=> (not (bvult %s %s)) (= %s %s)) :pattern (%s)))", j,
				bvBin("bvsub", j, o), n, sel(inner, j), sel(sel(old, r), j), sel(inner, j)))
			h.m["fe"] = vc.define("H", heapSort("fe"), sto(old, r, inner))
		default:
			h.m["fe"] = vc.define("H", heapSort("fe"), sto(old, r, vc.fresh("A", innerSort("fe"))))
		}
	}
	if n == "" {
		vc.havocObj(h, r, vc.elemComps(v))
		return
	}
	if v.K == KPtr {
		el := layoutOf(v.T.Underlying().(*types.Pointer).Elem())
		if el.N <= 64 {
			vc.eachCell(el, 0, func(cl *Layout, off int64) {
				cell := bvBin("bvadd", o, off64(off))
				for _, c := range compsOf(cl.Kind, cl.W) {
					old := h.m[c.name]
					fv := vc.fresh("hv", compSort(c.name))
					h.m[c.name] = vc.define("H", heapSort(c.name), sto(old, r, sto(sel(old, r), cell, fv)))
				}
			})
			return
		}
	}
	for _, c := range sortedKeys(vc.elemComps(v)) {
		old := h.m[c]
		inner := vc.fresh("A", innerSort(c))
		j := "j!"
		vc.assume(fmt.Sprintf("(forall ((%s (_ BitVec 64))) (! (=> (not (bvult %s %s)) (= %s %s)) :pattern (%s)))", j,
			bvBin("bvsub", j, o), n, sel(inner, j), sel(sel(old, r), j), sel(inner, j)))
		h.m[c] = vc.define("H", heapSort(c), sto(old, r, inner))
	}
}

// ---------- calls ----------

func (vc *VC) callFrame(call *ssa.Call) []frameEntry {
	cc := call.Common()
	if cc.IsInvoke() {
		if c := vc.e.ifaceContract(cc); c != nil && c.HasAssigns && !c.AssignsAny {
			return vc.e.contractFrame(c, cc.Signature(), true)
		}
		return []frameEntry{{allComps(), -1}}
	}
	switch f := cc.Value.(type) {
	case *ssa.Builtin:
		switch f.Name() {
		case "copy", "append":
			et := types.Type(types.Typ[types.Uint8])
			if st, ok := cc.Args[0].Type().Underlying().(*types.Slice); ok {
				et = st.Elem()
			}
			return []frameEntry{{layoutOf(et).Comps(), 0}}
		case "clear":
			return []frameEntry{{allComps(), 0}}
		}
		return nil
	case *ssa.Function:
		return vc.e.frameOf(f)
	case *ssa.MakeClosure:
		return []frameEntry{{allComps(), -1}}
	}
	return []frameEntry{{allComps(), -1}}
}

// callName: the name used by callsite clauses.
func callName(cc *ssa.CallCommon) string {
	if cc.IsInvoke() {
		return cc.Method.Name()
	}
	if f := cc.StaticCallee(); f != nil {
		n := f.Name()
		if i := strings.Index(n, "["); i > 0 {
			n = n[:i] // instance of a generic function: the name used in clauses has no type arguments
		}
		return n
	}
	if b, ok := cc.Value.(*ssa.Builtin); ok {
		return b.Name()
	}
	return ""
}

// callOrdinal: 1-based position of this call among the calls with the same name, in source order.
func (vc *VC) callOrdinal(ins *ssa.Call) int {
	name := callName(ins.Common())
	n := 1
	for _, b := range vc.fn.Blocks {
		for _, i2 := range b.Instrs {
			c2, ok := i2.(*ssa.Call)
			if !ok || c2 == ins || callName(c2.Common()) != name {
				continue
			}
			if c2.Pos() < ins.Pos() || (c2.Pos() == ins.Pos() && (c2.Block().Index < ins.Block().Index)) {
				n++
			}
		}
	}
	return n
}

func (vc *VC) checkCallSites(ins *ssa.Call) {
	if vc.c == nil || len(vc.c.CallSites) == 0 {
		return
	}
	cc := ins.Common()
	name := callName(cc)
	var ord int
	firstItem := len(vc.items)
	defer func() {
		for _, cs := range vc.c.Cuts {
			if cs.Name == name {
				if ord == 0 {
					ord = vc.callOrdinal(ins)
				}
				if cs.K == ord {
					vc.cuts = append(vc.cuts, cutPoint{from: firstItem, at: len(vc.items)})
				}
			}
		}
	}()
	for _, cs := range vc.c.CallSites {
		if cs.Name != name {
			continue
		}
		if ord == 0 {
			ord = vc.callOrdinal(ins)
		}
		if cs.K != ord {
			continue
		}
		cs.hit = true
		vc.csHit[cs] = true
		env := vc.entryEnv()
		env.heap = vc.cur.heap
		heapNow := vc.cur.heap
		env.local = func(name string) *Val { return vc.localAtInstr(name, ins, heapNow) }
		i := 0
		own := map[string]bool{}
		for _, p := range vc.fn.Params {
			own[p.Name()] = true
		}
		setArg := func(i int, v *Val) {
			env.vars[fmt.Sprintf("carg%d", i)] = v
			if n := fmt.Sprintf("arg%d", i); !own[n] {
				env.vars[n] = v // the function's own parameters win over call-argument names
			}
		}
		if cc.IsInvoke() {
			setArg(0, vc.val(cc.Value))
			i = 1
		}
		for _, a := range cc.Args {
			setArg(i, vc.val(a))
			i++
		}
		t := vc.compileClause(env, cs.Cl)
		kind := fmt.Sprintf("callsite.%s%d", name, cs.K)
		if cs.Cl.Label != "" {
			kind = "callsite." + cs.Cl.Label
		}
		vc.oblige(kind, vc.cur.pc, t, ins.Pos(), fmt.Sprintf("at call %s#%d: %s", name, cs.K, cs.Cl.Src))
	}
}

func (vc *VC) execCall(ins *ssa.Call) {
	cc := ins.Common()
	h := vc.cur.heap
	if vc.callPC == nil {
		vc.callPC = map[*ssa.Call]string{}
	}
	vc.callPC[ins] = vc.cur.pc
	vc.checkCallSites(ins)
	if cc.IsInvoke() {
		recv := vc.val(cc.Value)
		vc.oblige("safety.nil", vc.cur.pc, sNot(sEq(recv.C[0], "0")), ins.Pos(), "method call on nil interface")
		args := []*Val{recv}
		for _, a := range cc.Args {
			args = append(args, vc.val(a))
		}
		if c := vc.e.ifaceContract(cc); c != nil {
			sig := cc.Signature()
			// build a signature-like name list: receiver is "recv"
			vc.applyContract(ins, c, nil, sig, args, true)
			return
		}
		if vc.devirtualize(ins, recv, args) {
			return
		}
		vc.callees["invoke:"+cc.Method.FullName()] = true
		vc.frameOfCallCheck([]frameEntry{{allComps(), -1}}, nil, ins.Pos(), "interface method "+cc.Method.Name())
		vc.havocAll(h, nil)
		vc.vals[ins] = vc.resultVal(ins, h)
		return
	}
	switch f := cc.Value.(type) {
	case *ssa.Builtin:
		vc.execBuiltin(ins, f)
		return
	case *ssa.Function:
		var args []*Val
		for _, a := range cc.Args {
			args = append(args, vc.val(a))
		}
		vc.callFunction(ins, f, args)
		return
	case *ssa.MakeClosure:
		vc.note("closure call abstracted (havoc)")
		vc.frameOfCallCheck([]frameEntry{{allComps(), -1}}, nil, ins.Pos(), "closure")
		vc.havocAll(h, nil)
		vc.vals[ins] = vc.resultVal(ins, h)
		return
	default:
		// a never-reassigned package-level function variable is a static call to its initial value
		if u, ok := cc.Value.(*ssa.UnOp); ok && u.Op == token.MUL {
			if g, ok := u.X.(*ssa.Global); ok {
				vc.e.scanGlobals()
				if gi := vc.e.constGlob[g]; gi != nil && gi.constant && gi.fn != nil {
					var args []*Val
					for _, a := range cc.Args {
						args = append(args, vc.val(a))
					}
					vc.callFunction(ins, gi.fn, args)
					return
				}
			}
		}
		// dynamic function value
		fv := vc.val(cc.Value)
		if vc.splitFuncCall(ins, fv) {
			return
		}
		vc.oblige("safety.nil", vc.cur.pc, sNot(sEq(fv.C[0], "0")), ins.Pos(), "call of nil function value")
		vc.note("call through function value abstracted (havoc)")
		vc.frameOfCallCheck([]frameEntry{{allComps(), -1}}, nil, ins.Pos(), "function value")
		vc.havocAll(h, nil)
		vc.vals[ins] = vc.resultVal(ins, h)
	}
}

func (vc *VC) resultVal(ins *ssa.Call, h *Heap) *Val {
	t := ins.Type()
	if tu, ok := t.(*types.Tuple); ok && tu.Len() == 0 {
		return &Val{K: KUnit}
	}
	return vc.symVal("r_"+ins.Name(), t, h)
}

func (vc *VC) callFunction(ins *ssa.Call, f *ssa.Function, args []*Val) {
	h := vc.cur.heap
	key := vc.e.fnKey(f)
	vc.callees[key] = true
	// pointer receiver/params must be non-nil (API convention assumed at entry, checked at call sites)
	sig := f.Signature
	_, ptypes, _, _ := sigNames(sig)
	for i, a := range args {
		if a.K == KPtr && i < len(ptypes) && !isUnsafePtr(ptypes[i]) && !vc.e.nullableParam(f, i) {
			vc.oblige("pre.nonnil", vc.cur.pc, sNot(sEq(a.C[0], "0")), ins.Pos(), fmt.Sprintf("argument %d of %s is non-nil", i, f.Name()))
		}
	}
	if c := vc.e.contractFor(f); c != nil {
		vc.applyContract(ins, c, f, sig, args, false)
		return
	}
	if bc := vc.e.builtinModel(vc, ins, f, args); bc {
		return
	}
	// no contract: inferred frame, unconstrained results
	fr := vc.e.frameOf(f)
	vc.frameOfCallCheck(fr, args, ins.Pos(), f.Name())
	vc.applyFrame(h, fr, args)
	vc.vals[ins] = vc.resultVal(ins, h)
}

// frameOfCallOK: a callee whose effects are only known as an inferred frame (or not at all) is checked against
// the caller's assigns clause: writes rooted at an argument must hit an assigns target (or a fresh object);
// a callee that may write anywhere cannot be reconciled with a declared frame.
func (vc *VC) frameOfCallCheck(fr []frameEntry, args []*Val, pos token.Pos, what string) {
	if vc.c == nil || !vc.c.HasAssigns || vc.c.AssignsAny {
		return
	}
	for _, fe := range fr {
		if len(fe.comps) == 0 {
			continue
		}
		if fe.arg < 0 || fe.arg >= len(args) {
			vc.oblige("frame.call", vc.cur.pc, "false", pos, what+" may write memory that is not rooted at its arguments: the caller's assigns clause cannot be established")
			return
		}
		a := args[fe.arg]
		switch a.K {
		case KPtr, KSlice:
			env := vc.entryEnv()
			alts := []string{app(">=", a.C[0], vc.heap0.alloc), sEq(a.C[0], "0")}
			for _, cl := range vc.c.Assigns {
				v := vc.compile(env, cl.N)
				alts = append(alts, sEq(a.C[0], vc.refOf(v)))
			}
			vc.oblige("frame.call", vc.cur.pc, sOr(alts...), pos, fmt.Sprintf("%s may write through argument %d, which must be an assigns target or fresh", what, fe.arg))
		default:
			vc.oblige("frame.call", vc.cur.pc, "false", pos, what+" may write through a non-pointer argument")
		}
	}
}

func (vc *VC) applyFrame(h *Heap, fr []frameEntry, args []*Val) {
	all := map[string]bool{}
	for _, fe := range fr {
		if fe.arg < 0 || fe.arg >= len(args) {
			for c := range fe.comps {
				all[c] = true
			}
		}
	}
	if len(all) > 0 {
		vc.havocAll(h, all)
	}
	for _, fe := range fr {
		if fe.arg < 0 || fe.arg >= len(args) {
			continue
		}
		a := args[fe.arg]
		cs := map[string]bool{}
		for c := range fe.comps {
			if !all[c] {
				cs[c] = true
			}
		}
		switch a.K {
		case KPtr, KSlice:
			vc.havocObj(h, a.C[0], cs)
		default:
			vc.havocAll(h, cs)
		}
	}
	if len(all) == 0 {
		na := vc.fresh("alloc", "Int")
		vc.assume(app(">=", na, h.alloc))
		h.alloc = na
	}
}

func (vc *VC) applyContract(ins *ssa.Call, c *Contract, f *ssa.Function, sig *types.Signature, args []*Val, invoke bool) {
	h := vc.cur.heap
	c.used = true
	applyFrom := len(vc.items)
	defer func() {
		vc.applyMarks = append(vc.applyMarks, applyMark{from: applyFrom, to: len(vc.items), pc: vc.cur.pc,
			what: fmt.Sprintf("contract of %s applied at %s", shortKey(c.Key), vc.pos(ins.Pos()))})
	}()
	pre := h.clone()
	var envPkg *ssa.Package
	mkEnv := func(results []*Val, heap *Heap) *Env {
		var env *Env
		if invoke {
			// receiver of an interface method is arg 0 named "recv"
			env = &Env{vc: vc, vars: map[string]*Val{"recv": args[0]}, heap: heap, old: pre, pkg: envPkg}
			for i := 0; i < sig.Params().Len(); i++ {
				if n := sig.Params().At(i).Name(); n != "" {
					env.vars[n] = args[i+1]
				}
				env.vars[fmt.Sprintf("arg%d", i+1)] = args[i+1]
			}
			if results != nil {
				for i := 0; i < sig.Results().Len(); i++ {
					if n := sig.Results().At(i).Name(); n != "" {
						env.vars[n] = results[i]
					}
					env.vars[fmt.Sprintf("result%d", i)] = results[i]
				}
				if len(results) == 1 {
					env.vars["result"] = results[0]
				}
			}
			return env
		}
		return vc.contractEnv(f, sig, args, results, heap, pre)
	}
	if invoke {
		envPkg = vc.e.contractPkg(c)
	}
	env := mkEnv(nil, pre)
	if env.pkg == nil {
		env.pkg = vc.e.contractPkg(c)
	}
	for i, cl := range c.Requires {
		if c.clauseMode(cl) != vc.modeName() {
			// a precondition written for the other integer encoding cannot be checked from this VC
			vc.oblige("pre.cross-mode", vc.cur.pc, "false", ins.Pos(), "callee precondition is stated in the other integer mode: "+cl.Src)
			continue
		}
		t := vc.compileClause(env, cl)
		kind := fmt.Sprintf("pre.r%d", i+1)
		if cl.Label != "" {
			kind = "pre." + cl.Label
		}
		name := "call"
		if f != nil {
			name = f.Name()
		}
		vc.oblige(kind, vc.cur.pc, t, ins.Pos(), fmt.Sprintf("precondition of %s: %s", name, cl.Src))
	}
	for _, cl := range c.PanicsIf {
		if c.clauseMode(cl) != vc.modeName() {
			continue
		}
		t := vc.compileClause(env, cl)
		// the callee's documented panic may be the caller's own documented panic
		own := []string{}
		if vc.c != nil {
			ee := vc.entryEnv()
			for _, pc := range vc.c.PanicsIf {
				if vc.c.clauseMode(pc) == vc.modeName() {
					own = append(own, vc.compileClause(ee, pc))
				}
			}
		}
		vc.oblige("pre.nopanic", vc.cur.pc, sOr(append(own, sNot(t))...), ins.Pos(), "documented panic condition of callee is excluded (or is the caller's documented panic): "+cl.Src)
	}
	// frame
	switch {
	case c.HasAssigns && !c.AssignsAny:
		for _, cl := range c.Assigns {
			v := vc.compile(env, cl.N)
			comps := vc.elemComps(v)
			_ = comps
			rr, ro, rn := vc.regionOf(v)
			if rn != "" && sEq(rn, off64(0)) == "true" {
				// empty window (nil / zero-capacity slice): nothing can be written
			} else if rn != "" && sEq(rn, off64(0)) != "false" {
				// an empty callee window cannot be written
				vc.checkFrameIfAt(sNot(sEq(rn, off64(0))), rr, ro, ins.Pos())
			} else if v.K == KPtr && sEq(rr, "0") != "false" {
				// nothing can be written through a nil pointer
				vc.checkFrameIfAt(sNot(sEq(rr, "0")), rr, ro, ins.Pos())
			} else {
				vc.checkFrameAt(rr, ro, ins.Pos())
			}
			vc.havocRegion(h, v)
		}
		na := vc.fresh("alloc", "Int")
		vc.assume(app(">=", na, h.alloc))
		h.alloc = na
	case f != nil && len(f.Blocks) > 0 && !c.AssignsAny:
		vc.frameOfCallCheck(vc.e.frameOf(f), args, ins.Pos(), f.Name())
		vc.applyFrame(h, vc.e.frameOf(f), args)
	default:
		vc.frameOfCallCheck([]frameEntry{{allComps(), -1}}, args, ins.Pos(), "callee")
		vc.havocAll(h, nil)
	}
	// results
	var res []*Val
	var rv *Val
	if tu, ok := ins.Type().(*types.Tuple); ok {
		if tu.Len() == 0 {
			rv = &Val{K: KUnit}
		} else {
			rv = vc.symVal("r_"+ins.Name(), tu, h)
			res = rv.Elems
		}
	} else {
		rv = vc.symVal("r_"+ins.Name(), ins.Type(), h)
		res = []*Val{rv}
	}
	vc.vals[ins] = rv
	env2 := mkEnv(res, h)
	if env2.pkg == nil {
		env2.pkg = vc.e.contractPkg(c)
	}
	for _, cl := range c.Ensures {
		if c.clauseMode(cl) != vc.modeName() {
			continue // postconditions stated in the other integer mode are not used here (sound: fewer assumptions)
		}
		if strings.Contains(cl.Src, "ret(\"") || strings.Contains(cl.Src, "called(\"") || strings.Contains(cl.Src, "atcall(\"") {
			continue // speaks about the callee's own calls: not visible to a caller
		}
		if cl.Mode == "ringax" {
			vc.note("ring-level statement of %s [%s] taken from its limb-level contract (ringax)", shortKey(c.Key), cl.Label)
		}
		vc.assume(sImp(vc.cur.pc, vc.compileClause(env2, cl)))
	}
}

// checkFrameCall: callee's assigns must be within caller's assigns.
func (vc *VC) checkFrameCall(r string, pos token.Pos) {
	vc.checkFrame(r, pos, nil)
}

func (vc *VC) execBuiltin(ins *ssa.Call, f *ssa.Builtin) {
	cc := ins.Common()
	h := vc.cur.heap
	var args []*Val
	for _, a := range cc.Args {
		args = append(args, vc.val(a))
	}
	mkInt := func(t string) *Val {
		if vc.intMode {
			if n, _, ok := asLit(t); ok {
				return vc.bv(n.String(), 64, true, types.Typ[types.Int])
			}
			return vc.bv(app("bv2nat", t), 64, true, types.Typ[types.Int])
		}
		return vc.bv(t, 64, true, types.Typ[types.Int])
	}
	switch f.Name() {
	case "len":
		a := args[0]
		switch a.K {
		case KSlice, KString:
			vc.vals[ins] = mkInt(a.C[2])
		case KMap, KChan:
			vc.note("len of map/chan abstracted")
			v := vc.symVal("len", ins.Type(), h)
			vc.assume(bvCmp("bvsge", v.C[0], off64(0)))
			vc.vals[ins] = v
		default:
			panic("len of " + a.K.String())
		}
	case "cap":
		vc.vals[ins] = mkInt(args[0].C[3])
	case "copy":
		dst, src := args[0], args[1]
		n := vc.define("copyn", offSort, sIte(bvCmp("bvult", dst.C[2], src.C[2]), dst.C[2], src.C[2]))
		et := types.Type(types.Typ[types.Uint8])
		if st, ok := cc.Args[0].Type().Underlying().(*types.Slice); ok {
			et = st.Elem()
		}
		l := layoutOf(et)
		vc.checkFrameIfAt(sNot(sEq(n, off64(0))), dst.C[0], dst.C[1], ins.Pos())
		src2 := src
		vc.memcpy(h, dst.C[0], dst.C[1], h.clone(), src2.C[0], src2.C[1], l, mulOff(n, l.N), -1)
		vc.vals[ins] = mkInt(n)
	case "append":
		vc.execAppend(ins, args)
	case "min", "max":
		a, b := args[0], args[1]
		if a.K != KBV || len(args) != 2 {
			panic("min/max unsupported form")
		}
		lt := vc.binop(token.LSS, a, b, nil).C[0]
		if f.Name() == "max" {
			lt = sNot(lt)
		}
		vc.bind(ins, vc.bv(sIte(lt, a.C[0], b.C[0]), a.W, a.Signed, ins.Type()))
	case "print", "println":
	case "delete", "clear":
		vc.note("map delete/clear abstracted")
		if f.Name() == "clear" && args[0].K == KSlice {
			vc.havocObj(h, args[0].C[0], vc.elemComps(args[0]))
		}
	case "recover":
		vc.note("recover (outside subset)")
		vc.vals[ins] = vc.symVal("recover", ins.Type(), h)
	case "ssa:wrapnilchk":
		vc.oblige("safety.nil", vc.cur.pc, sNot(sEq(args[0].C[0], "0")), ins.Pos(), "nil receiver in method value")
		vc.vals[ins] = args[0]
	default:
		panic("unsupported builtin " + f.Name())
	}
}

func (vc *VC) checkFrameIf(cond string, r string, pos token.Pos) {
	vc.checkFrameIfAt(cond, r, "", pos)
}

func (vc *VC) checkFrameIfAt(cond string, r, o string, pos token.Pos) {
	if vc.c == nil || !vc.c.HasAssigns || vc.c.AssignsAny {
		return
	}
	env := vc.entryEnv()
	alts := []string{sNot(cond), app(">=", r, vc.heap0.alloc)}
	for _, cl := range vc.c.Assigns {
		v := vc.compile(env, cl.N)
		alts = append(alts, vc.inRegion(v, r, o))
	}
	vc.oblige("frame", vc.cur.pc, sOr(alts...), pos, "copy/append target is within the assigns clause or freshly allocated")
}

func (vc *VC) execAppend(ins *ssa.Call, args []*Val) {
	h := vc.cur.heap
	s := args[0]
	st := ins.Type().Underlying().(*types.Slice)
	l := layoutOf(st.Elem())
	var sr, so, sn string
	if len(args) < 2 {
		vc.vals[ins] = s
		return
	}
	t := args[1]
	switch t.K {
	case KSlice, KString:
		sr, so, sn = t.C[0], t.C[1], t.C[2]
	case KPtr: // append(s, nil...)
		vc.vals[ins] = s
		return
	default:
		panic("append of " + t.K.String())
	}
	newLen := vc.define("applen", offSort, bvBin("bvadd", s.C[2], sn))
	fits := vc.define("appfits", "Bool", bvCmp("bvule", newLen, s.C[3]))
	snap := h.clone()
	// in place branch
	hin := h.clone()
	vc.checkFrameIfAt(sAnd(fits, sNot(sEq(sn, off64(0)))), s.C[0], bvBin("bvadd", s.C[1], mulOff(s.C[2], l.N)), ins.Pos())
	vc.memcpy(hin, s.C[0], bvBin("bvadd", s.C[1], mulOff(s.C[2], l.N)), snap, sr, so, l, mulOff(sn, l.N), -1)
	// fresh branch
	hfr := h.clone()
	nr := vc.allocObj(hfr, l)
	vc.memcpy(hfr, nr, off64(0), snap, s.C[0], s.C[1], l, mulOff(s.C[2], l.N), -1)
	vc.memcpy(hfr, nr, mulOff(s.C[2], l.N), snap, sr, so, l, mulOff(sn, l.N), -1)
	ncap := vc.fresh("appcap", offSort)
	vc.assume(sAnd(bvCmp("bvuge", ncap, newLen), app("bvule", ncap, maxCells)))
	merged := vc.mergeHeaps([]string{fits}, []*Heap{hin, hfr})
	*h = *merged
	res := &Val{K: KSlice, T: ins.Type(), C: []string{
		sIte(fits, s.C[0], nr), sIte(fits, s.C[1], off64(0)), newLen, sIte(fits, s.C[3], ncap)}}
	vc.bind(ins, res)
	// lengths stay within the model's bound
	vc.assume(app("bvule", newLen, maxCells))
	// summary of the result (consequences of the two-branch model, stated over absolute cell indices so that
	// they chain through nested appends): prefix = old contents of s, suffix = appended elements
	rv := vc.vals[ins]
	for _, c := range sortedKeys(l.Comps()) {
		newA := sel(h.m[c], rv.C[0])
		cidx := "c!"
		rel := bvBin("bvsub", cidx, rv.C[1])
		pre := fmt.Sprintf("(forall ((%s (_ BitVec 64))) (! (=> (bvult %s %s) (= %s %s)) :pattern (%s)))", cidx, rel, mulOff(s.C[2], l.N),
			sel(newA, cidx), sel(sel(snap.m[c], s.C[0]), bvBin("bvadd", s.C[1], rel)), sel(newA, cidx))
		rel2 := bvBin("bvsub", rel, mulOff(s.C[2], l.N))
		suf := fmt.Sprintf("(forall ((%s (_ BitVec 64))) (! (=> (bvult %s %s) (= %s %s)) :pattern (%s)))", cidx, rel2, mulOff(sn, l.N),
			sel(newA, cidx), sel(sel(snap.m[c], sr), bvBin("bvadd", so, rel2)), sel(newA, cidx))
		vc.assume(sImp(vc.cur.pc, pre))
		vc.assume(sImp(vc.cur.pc, suf))
	}
}

func shortName(s string) string {
	if i := strings.LastIndex(s, "/"); i >= 0 {
		return s[i+1:]
	}
	return s
}

// devirtualize: an interface method call whose receiver may hold dynamic types seen in this function
// (values converted to interfaces here) is split by type tag: under `tag == T` the contract of T's method
// applies; for any other tag the call is havocked.
func (vc *VC) devirtualize(ins *ssa.Call, recv *Val, args []*Val) bool {
	cc := ins.Common()
	type cand struct {
		t   types.Type
		f   *ssa.Function
		c   *Contract
		tag string
	}
	var cands []cand
	for tagStr, t := range vc.tagTypes {
		ms := vc.e.prog.MethodSets.MethodSet(t)
		sel := ms.Lookup(cc.Method.Pkg(), cc.Method.Name())
		if sel == nil {
			continue
		}
		f := vc.e.prog.MethodValue(sel)
		if f == nil {
			continue
		}
		c := vc.e.contractFor(f)
		if c == nil {
			continue
		}
		cands = append(cands, cand{t, f, c, tagStr})
	}
	if len(cands) == 0 {
		return false
	}
	sort.Slice(cands, func(i, j int) bool { return cands[i].tag < cands[j].tag })
	pc0 := vc.cur.pc
	pre := vc.cur.heap.clone()
	var conds []string
	var heaps []*Heap
	var results []*Val
	none := []string{}
	for _, cd := range cands {
		guard := sEq(recv.C[0], cd.tag)
		none = append(none, sNot(guard))
		vc.cur.heap = pre.clone()
		vc.cur.pc = vc.define("pc_dv", "Bool", sAnd(pc0, guard))
		// receiver as the concrete method expects it
		var rv *Val
		sigRecv := cd.f.Signature.Recv().Type()
		if _, isPtr := sigRecv.Underlying().(*types.Pointer); isPtr {
			rv = &Val{K: KPtr, T: sigRecv, C: []string{recv.C[1], recv.C[2]}}
		} else {
			rv = vc.load(vc.cur.heap, layoutOf(sigRecv), sigRecv, recv.C[1], recv.C[2])
			if rv.K == KAgg {
				rv.H = vc.cur.heap.clone()
			}
		}
		cargs := append([]*Val{rv}, args[1:]...)
		vc.callees[vc.e.fnKey(cd.f)] = true
		vc.applyContract(ins, cd.c, cd.f, cd.f.Signature, cargs, false)
		conds = append(conds, guard)
		heaps = append(heaps, vc.cur.heap)
		results = append(results, vc.vals[ins])
	}
	// any other dynamic type: unknown effect
	vc.cur.heap = pre.clone()
	vc.cur.pc = pc0
	vc.havocAll(vc.cur.heap, nil)
	heaps = append(heaps, vc.cur.heap)
	results = append(results, vc.resultVal(ins, vc.cur.heap))
	vc.callees["invoke:"+cc.Method.FullName()] = true
	merged := vc.mergeHeaps(conds, heaps)
	vc.cur.heap = merged
	vc.cur.pc = pc0
	// merge results
	last := results[len(results)-1]
	if last.K == KUnit {
		vc.vals[ins] = last
		return true
	}
	if last.K == KTuple {
		out := &Val{K: KTuple, T: last.T}
		for i := range last.Elems {
			var vs []*Val
			for _, r := range results {
				vs = append(vs, r.Elems[i])
			}
			out.Elems = append(out.Elems, vc.iteVals(conds, vs, last.Elems[i].T))
		}
		vc.vals[ins] = out
		return true
	}
	vc.vals[ins] = vc.iteVals(conds, results, last.T)
	return true
}

// splitFuncCall: a call through a function value is split over the functions this VC knows by identity
// (function constants used in the function, and `isfunc(x, f)` in contracts): under `id == id(f)` the call is a
// static call of f; any other value is havocked.
func (vc *VC) splitFuncCall(ins *ssa.Call, fv *Val) bool {
	if len(vc.funcCands) == 0 {
		return false
	}
	cc := ins.Common()
	var ids []int
	for id, f := range vc.funcCands {
		if types.Identical(f.Signature, cc.Signature()) {
			ids = append(ids, id)
		}
	}
	if len(ids) == 0 {
		return false
	}
	sort.Ints(ids)
	vc.oblige("safety.nil", vc.cur.pc, sNot(sEq(fv.C[0], "0")), ins.Pos(), "call of nil function value")
	var args []*Val
	for _, a := range cc.Args {
		args = append(args, vc.val(a))
	}
	pc0 := vc.cur.pc
	pre := vc.cur.heap.clone()
	var conds []string
	var heaps []*Heap
	var results []*Val
	for _, id := range ids {
		guard := sEq(fv.C[0], fmt.Sprint(id))
		vc.cur.heap = pre.clone()
		vc.cur.pc = vc.define("pc_fv", "Bool", sAnd(pc0, guard))
		vc.callFunction(ins, vc.funcCands[id], args)
		conds = append(conds, guard)
		heaps = append(heaps, vc.cur.heap)
		results = append(results, vc.vals[ins])
	}
	vc.cur.heap = pre.clone()
	vc.cur.pc = pc0
	vc.havocAll(vc.cur.heap, nil)
	heaps = append(heaps, vc.cur.heap)
	results = append(results, vc.resultVal(ins, vc.cur.heap))
	vc.note("call through function value split over %d known functions (else havoc)", len(ids))
	vc.cur.heap = vc.mergeHeaps(conds, heaps)
	vc.cur.pc = pc0
	last := results[len(results)-1]
	switch last.K {
	case KUnit:
		vc.vals[ins] = last
	case KTuple:
		out := &Val{K: KTuple, T: last.T}
		for i := range last.Elems {
			var vs []*Val
			for _, r := range results {
				vs = append(vs, r.Elems[i])
			}
			out.Elems = append(out.Elems, vc.iteVals(conds, vs, last.Elems[i].T))
		}
		vc.vals[ins] = out
	default:
		vc.vals[ins] = vc.iteVals(conds, results, last.T)
	}
	return true
}

// leafStarts: cell offsets at which an element (an array of scalars, or a scalar) starts within layout l.
func leafStarts(l *Layout, base int64, out []int64) []int64 {
	switch {
	case l.Elem != nil && l.Elem.Kind != KAgg:
		return append(out, base)
	case l.Elem != nil:
		for i := int64(0); i < l.Len && len(out) <= 64; i++ {
			out = leafStarts(l.Elem, base+i*l.Elem.N, out)
		}
		return out
	case l.Kind == KAgg:
		for i, fl := range l.FL {
			out = leafStarts(fl, base+l.Fields[i], out)
		}
		return out
	}
	return append(out, base)
}

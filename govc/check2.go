package main

import (
	"fmt"
	"go/types"
	"os"
	"regexp"
	"sort"
	"strings"
	"sync"
	"time"

	"golang.org/x/tools/go/ssa"
)

func (e *Engine) loadAllContracts(extraDir string) error {
	if err := e.loadRepoContracts(); err != nil {
		return err
	}
	if err := e.loadExtraContracts(extraDir); err != nil {
		return err
	}
	// vacuity guard: a contract in a loaded repository package that matches no function is reported
	keys := map[string]bool{}
	for f := range e.allFuncs {
		keys[e.fnKey(f)] = true
	}
	for k, c := range e.contracts {
		if strings.HasPrefix(c.File, e.repo) && !keys[k] && !isIfaceKey(e, k) {
			fmt.Fprintf(os.Stderr, "WARNING: contract %s (%s:%d) matches no function in configuration %s\n", k, relPath(c.File), c.Line, e.config)
			e.orphanContracts = append(e.orphanContracts, k)
		}
	}
	return nil
}

// isIfaceKey: keys of the form (pkg.Iface).Method name interface methods (no function body to match).
func isIfaceKey(e *Engine, k string) bool {
	if !strings.HasPrefix(k, "(") || strings.HasPrefix(k, "(*") {
		return false
	}
	i := strings.LastIndex(k, ").")
	if i < 0 {
		return false
	}
	tn := k[1:i]
	j := strings.LastIndex(tn, ".")
	if j < 0 {
		return false
	}
	for _, sp := range e.prog.AllPackages() {
		if sp.Pkg.Path() == tn[:j] {
			if obj := sp.Pkg.Scope().Lookup(tn[j+1:]); obj != nil {
				_, isI := obj.Type().Underlying().(*types.Interface)
				return isI
			}
		}
	}
	return false
}

func (e *Engine) selectFuncsMulti(res []string, seen map[string]bool) []*ssa.Function {
	var out []*ssa.Function
	for _, r := range res {
		re := regexp.MustCompile(r)
		for _, f := range e.selectFuncs(re) {
			k := f.String()
			if !seen[k] {
				seen[k] = true
				out = append(out, f)
			}
		}
	}
	sort.Slice(out, func(i, j int) bool { return out[i].String() < out[j].String() })
	return out
}

type LemmaResult struct {
	Name    string
	Status  string
	Solver  string
	Seconds float64
	Output  string
}

func (e *Engine) checkLemmas(pats []string, cfg SolverCfg) []*LemmaResult {
	var out []*LemmaResult
	var mu sync.Mutex
	var wg sync.WaitGroup
	for _, l := range e.lemmas {
		match := false
		for _, p := range pats {
			if regexp.MustCompile(p).MatchString(l.Name) {
				match = true
			}
		}
		if !match {
			continue
		}
		wg.Add(1)
		go func(l *Lemma) {
			defer wg.Done()
			r := e.checkLemma(l, cfg)
			mu.Lock()
			out = append(out, r)
			mu.Unlock()
		}(l)
	}
	wg.Wait()
	sort.Slice(out, func(i, j int) bool { return out[i].Name < out[j].Name })
	return out
}

func (e *Engine) checkLemma(l *Lemma, cfg SolverCfg) (res *LemmaResult) {
	res = &LemmaResult{Name: l.Name, Status: "error"}
	vc := e.newVC(nil, nil, nil)
	vc.intMode = l.Mode == "int"
	defer func() {
		if r := recover(); r != nil {
			res.Output = fmt.Sprint(r)
		}
	}()
	genMu.Lock()
	genIntMode = vc.intMode
	env := &Env{vc: vc, vars: map[string]*Val{}, heap: vc.heap0, old: vc.heap0, pkg: l.Pkg}
	t, cerr := func() (t string, err error) {
		defer func() {
			if r := recover(); r != nil {
				err = fmt.Errorf("%v", r)
			}
		}()
		return vc.compileBool(env, l.Body.N), nil
	}()
	genIntMode = false
	genMu.Unlock()
	if cerr != nil {
		res.Output = cerr.Error()
		return res
	}
	ob := &Obligation{Name: "lemma." + l.Name, Kind: "lemma", Term: t}
	vc.obs = append(vc.obs, ob)
	vc.items = append(vc.items, Item{Ob: ob})
	r := raceSingle(vc, ob, cfg, "lemma_"+sanitize(l.Name))
	res.Status, res.Solver, res.Seconds, res.Output = r.Status, r.Solver, r.Seconds, r.Output
	return res
}

// onlyFailsWithin: with the known failing inputs excluded (assume not except), the obligation must hold.
func (vc *VC) onlyFailsWithin(ob *Obligation, except string, cfg SolverCfg) (ok bool, why string) {
	defer func() {
		if r := recover(); r != nil {
			ok, why = false, fmt.Sprint(r)
		}
	}()
	n, err := parseSpec(except)
	if err != nil {
		return false, err.Error()
	}
	genMu.Lock()
	env := vc.entryEnv()
	t, cerr := func() (t string, err error) {
		defer func() {
			if r := recover(); r != nil {
				err = fmt.Errorf("%v", r)
			}
		}()
		return vc.compileBool(env, n), nil
	}()
	genMu.Unlock()
	if cerr != nil {
		return false, cerr.Error()
	}
	// insert the exclusion right after the entry assumptions
	saved := vc.items
	items := append([]Item{}, vc.items[:vc.entryItems]...)
	items = append(items, Item{Text: "(assert (not " + t + "))"})
	items = append(items, vc.items[vc.entryItems:]...)
	vc.items = items
	defer func() { vc.items = saved }()
	r := raceSingle(vc, ob, cfg, "kf_"+fileBaseFor(ob.Name))
	if r.Status == "unsat" {
		return true, ""
	}
	return false, "obligation still fails outside the known inputs: " + r.Status
}

var replaysDone int

type ReplayResult struct {
	Path       string
	Reproduced bool
}

func (vc *VC) makeReplay(fr *FuncResult, or *ObResult, dir, repo string) ReplayResult {
	rec := map[string]interface{}{
		"obligation": or.Ob.Name, "kind": or.Ob.Kind, "at": or.Ob.Pos, "states": or.Ob.Desc,
		"scaffold": or.Ob.Scaffold, "function": fr.Key, "status": or.Status, "solver": or.Solver,
		"time": time.Now().Format(time.RFC3339),
	}
	out := or.Output
	if len(out) > 20000 {
		out = out[:20000] + "\n...[truncated]"
	}
	rec["solver_output"] = out
	reproduced := false
	replaysDone++
	if or.Status == "sat" && os.Getenv("GOVC_NOREPLAY") == "" && replaysDone <= 6 {
		rr := vc.replayOnRealCode(fr, or, repo, rec)
		reproduced = rr
	}
	rec["reproduced_on_real_code"] = reproduced
	p := writeReplay(dir, strings.ReplaceAll(shortKey(or.Ob.Name), "/", "_"), rec)
	return ReplayResult{Path: p, Reproduced: reproduced}
}

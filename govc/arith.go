package main

import (
	"fmt"
	"go/token"
	"go/types"
	"math/big"
)

func (vc *VC) bv(t string, w int, signed bool, typ types.Type) *Val {
	return &Val{K: KBV, W: w, Signed: signed, C: []string{t}, T: typ}
}

// shiftCount converts shift count b to width w, saturating at w.
func (vc *VC) shiftCount(b *Val, w int) string {
	if v, _, ok := asLit(b.C[0]); ok {
		if b.Signed {
			v = toSigned(v, b.W)
		}
		if v.Cmp(big.NewInt(int64(w))) >= 0 {
			return bvLitI(w, int64(w))
		}
		return bvLit(w, v)
	}
	if b.W <= w {
		if b.W == w {
			return b.C[0]
		}
		return bvExtend(false, b.W, w, b.C[0])
	}
	return sIte(app("bvuge", b.C[0], bvLitI(b.W, int64(w))), bvLitI(w, int64(w)), bvExtract(w-1, 0, b.C[0]))
}

func (vc *VC) binop(op token.Token, a, b *Val, rt types.Type) *Val {
	switch a.K {
	case KBV:
		if vc.intMode {
			return vc.binopInt(op, a, b, rt)
		}
		x, y := a.C[0], b.C[0]
		w, s := a.W, a.Signed
		switch op {
		case token.SHL:
			return vc.bv(bvBin("bvshl", x, vc.shiftCount(b, w)), w, s, rt)
		case token.SHR:
			if s {
				return vc.bv(bvBin("bvashr", x, vc.shiftCount(b, w)), w, s, rt)
			}
			return vc.bv(bvBin("bvlshr", x, vc.shiftCount(b, w)), w, s, rt)
		}
		if b.K != KBV || b.W != w {
			panic(fmt.Sprintf("binop %s: width mismatch %v %v", op, a, b))
		}
		switch op {
		case token.ADD:
			return vc.bv(bvBin("bvadd", x, y), w, s, rt)
		case token.SUB:
			return vc.bv(bvBin("bvsub", x, y), w, s, rt)
		case token.MUL:
			return vc.bv(bvBin("bvmul", x, y), w, s, rt)
		case token.QUO:
			if s {
				return vc.bv(app("bvsdiv", x, y), w, s, rt)
			}
			return vc.bv(app("bvudiv", x, y), w, s, rt)
		case token.REM:
			if s {
				return vc.bv(app("bvsrem", x, y), w, s, rt)
			}
			return vc.bv(app("bvurem", x, y), w, s, rt)
		case token.AND:
			return vc.bv(bvBin("bvand", x, y), w, s, rt)
		case token.OR:
			return vc.bv(bvBin("bvor", x, y), w, s, rt)
		case token.XOR:
			return vc.bv(bvBin("bvxor", x, y), w, s, rt)
		case token.AND_NOT:
			return vc.bv(bvBin("bvand", x, app("bvnot", y)), w, s, rt)
		case token.EQL:
			return vc.boolVal(sEq(x, y))
		case token.NEQ:
			return vc.boolVal(sNot(sEq(x, y)))
		case token.LSS, token.LEQ, token.GTR, token.GEQ:
			p := "bvu"
			if s {
				p = "bvs"
			}
			o := map[token.Token]string{token.LSS: "lt", token.LEQ: "le", token.GTR: "gt", token.GEQ: "ge"}[op]
			return vc.boolVal(bvCmp(p+o, x, y))
		}
	case KBool:
		x, y := a.C[0], b.C[0]
		switch op {
		case token.EQL:
			return vc.boolVal(sEq(x, y))
		case token.NEQ:
			return vc.boolVal(sNot(sEq(x, y)))
		case token.LAND, token.AND:
			return vc.boolVal(sAnd(x, y))
		case token.LOR, token.OR:
			return vc.boolVal(sOr(x, y))
		}
	case KPtr, KSlice, KIface, KFunc, KMap, KChan:
		eq := vc.valEq(a, b)
		switch op {
		case token.EQL:
			return vc.boolVal(eq)
		case token.NEQ:
			return vc.boolVal(sNot(eq))
		}
	case KString:
		switch op {
		case token.EQL:
			return vc.boolVal(vc.strEq(a, b))
		case token.NEQ:
			return vc.boolVal(sNot(vc.strEq(a, b)))
		case token.ADD:
			vc.note("string concatenation abstracted")
			return vc.symVal("strcat", a.T, vc.cur.heap)
		default:
			vc.note("string comparison abstracted")
			return vc.boolVal(vc.fresh("strcmp", "Bool"))
		}
	case KFloat:
		vc.note("float arithmetic abstracted (outside subset)")
		switch op {
		case token.EQL, token.NEQ, token.LSS, token.LEQ, token.GTR, token.GEQ:
			return vc.boolVal(vc.fresh("fcmp", "Bool"))
		}
		return &Val{K: KFloat, W: a.W, T: rt, C: []string{vc.fresh("fop", bvSort(a.W))}}
	case KAgg:
		eq := vc.aggEq(a, b)
		switch op {
		case token.EQL:
			return vc.boolVal(eq)
		case token.NEQ:
			return vc.boolVal(sNot(eq))
		}
	}
	panic(fmt.Sprintf("binop %s unsupported on %v, %v", op, a, b))
}

func (vc *VC) valEq(a, b *Val) string {
	// nil comparisons: other side may be KPtr nil const
	if a.K != b.K {
		if b.K == KPtr && len(b.C) == 2 && b.C[0] == "0" {
			return vc.isNil(a)
		}
		if a.K == KPtr && len(a.C) == 2 && a.C[0] == "0" {
			return vc.isNil(b)
		}
		panic(fmt.Sprintf("valEq kinds %v %v", a, b))
	}
	switch a.K {
	case KSlice:
		// only comparison with nil is legal in Go
		if b.C[0] == "0" {
			return vc.isNil(a)
		}
		if a.C[0] == "0" {
			return vc.isNil(b)
		}
	case KFunc, KMap, KChan:
		return sEq(a.C[0], b.C[0])
	case KIface:
		if b.C[0] == "0" {
			return vc.isNil(a)
		}
		if a.C[0] == "0" {
			return vc.isNil(b)
		}
	case KPtr:
		if b.C[0] == "0" {
			return vc.isNil(a)
		}
		if a.C[0] == "0" {
			return vc.isNil(b)
		}
	}
	var cs []string
	for i := range a.C {
		cs = append(cs, sEq(a.C[i], b.C[i]))
	}
	return sAnd(cs...)
}

func (vc *VC) isNil(a *Val) string {
	switch a.K {
	case KPtr, KSlice:
		return sEq(a.C[0], "0")
	case KIface:
		return sEq(a.C[0], "0")
	case KFunc, KMap, KChan:
		return sEq(a.C[0], "0")
	}
	panic("isNil on " + a.K.String())
}

func (vc *VC) strEq(a, b *Val) string {
	la, _, oka := asLit(a.C[2])
	lb, _, okb := asLit(b.C[2])
	if oka && okb && la.Cmp(lb) != 0 {
		return "false"
	}
	var n int64 = -1
	if oka {
		n = la.Int64()
	} else if okb {
		n = lb.Int64()
	}
	h := vc.cur.heap.m["bv8"]
	if n >= 0 && n <= 64 {
		cs := []string{sEq(a.C[2], b.C[2])}
		for i := int64(0); i < n; i++ {
			cs = append(cs, sEq(sel(sel(h, a.C[0]), bvBin("bvadd", a.C[1], bvLitI(64, i))), sel(sel(h, b.C[0]), bvBin("bvadd", b.C[1], bvLitI(64, i)))))
		}
		return sAnd(cs...)
	}
	vc.note("string equality abstracted")
	return vc.fresh("streq", "Bool")
}

func (vc *VC) aggEq(a, b *Val) string {
	l := layoutOf(a.T)
	if l.N <= 64 {
		var cs []string
		vc.eachCell(l, 0, func(cl *Layout, off int64) {
			o := bvLitI(64, off)
			x := vc.load(a.H, cl, nil, a.C[0], bvBin("bvadd", a.C[1], o))
			y := vc.load(b.H, cl, nil, b.C[0], bvBin("bvadd", b.C[1], o))
			if cl.Kind == KString || cl.Kind == KFloat {
				cs = append(cs, vc.fresh("cmp", "Bool"))
				return
			}
			for i := range x.C {
				cs = append(cs, sEq(x.C[i], y.C[i]))
			}
		})
		return sAnd(cs...)
	}
	// quantified
	var cs []string
	for c := range l.Comps() {
		cs = append(cs, fmt.Sprintf("(forall ((j! (_ BitVec 64))) (=> (bvult j! %s) (= (select (select %s %s) (bvadd %s j!)) (select (select %s %s) (bvadd %s j!)))))",
			bvLitI(64, l.N), a.H.m[c], a.C[0], a.C[1], b.H.m[c], b.C[0], b.C[1]))
	}
	return sAnd(cs...)
}

func (vc *VC) eachCell(l *Layout, base int64, f func(cl *Layout, off int64)) {
	switch {
	case l.Elem != nil:
		for i := int64(0); i < l.Len; i++ {
			vc.eachCell(l.Elem, base+i*l.Elem.N, f)
		}
	case l.Kind == KAgg:
		for i, fl := range l.FL {
			vc.eachCell(fl, base+l.Fields[i], f)
		}
	default:
		f(l, base)
	}
}

func (vc *VC) unop(op token.Token, a *Val, rt types.Type) *Val {
	switch op {
	case token.SUB:
		if a.K == KBV {
			if vc.intMode {
				return vc.negInt(a, rt)
			}
			if v, w, ok := asLit(a.C[0]); ok {
				return vc.bv(bvLit(w, new(big.Int).Neg(v)), a.W, a.Signed, rt)
			}
			return vc.bv(app("bvneg", a.C[0]), a.W, a.Signed, rt)
		}
		if a.K == KFloat {
			return &Val{K: KFloat, W: a.W, T: rt, C: []string{vc.fresh("fneg", bvSort(a.W))}}
		}
	case token.XOR:
		if a.K == KBV {
			if vc.intMode {
				if a.Signed {
					return vc.bv(app("-", app("-", a.C[0]), "1"), a.W, a.Signed, rt)
				}
				return vc.bv(app("-", intLit(mask(a.W)), a.C[0]), a.W, a.Signed, rt)
			}
			return vc.bv(app("bvnot", a.C[0]), a.W, a.Signed, rt)
		}
	case token.NOT:
		return vc.boolVal(sNot(a.C[0]))
	}
	panic(fmt.Sprintf("unop %s on %v", op, a))
}

// convert integer a to integer type (w,signed)
func (vc *VC) convInt(a *Val, w int, signed bool, t types.Type) *Val {
	if vc.intMode {
		if (a.Signed == signed && w >= a.W) || (!a.Signed && signed && w > a.W) {
			return vc.bv(a.C[0], w, signed, t)
		}
		return vc.wrapInt(a.C[0], w, signed, t)
	}
	return vc.bv(bvConv(a.C[0], a.W, a.Signed, w), w, signed, t)
}

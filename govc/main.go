package main

import (
	"flag"
	"fmt"
	"os"
	"regexp"
	"runtime/pprof"
	"sort"
	"strings"
	"sync"

	"golang.org/x/tools/go/ssa"
)

func main() {
	if len(os.Args) < 2 {
		fmt.Fprintln(os.Stderr, "usage: govc <vc|check|replay|sweep> ...")
		os.Exit(2)
	}
	if pf := os.Getenv("GOVC_CPUPROF"); pf != "" {
		if f, err := os.Create(pf); err == nil {
			pprof.StartCPUProfile(f)
			defer pprof.StopCPUProfile()
		}
	}
	switch os.Args[1] {
	case "vc":
		cmdVC(os.Args[2:])
	case "check":
		rc := cmdCheck(os.Args[2:])
		pprof.StopCPUProfile()
		os.Exit(rc)
	case "replay":
		os.Exit(cmdReplay(os.Args[2:]))
	default:
		fmt.Fprintln(os.Stderr, "unknown command", os.Args[1])
		os.Exit(2)
	}
}

// selectFuncs returns functions of the loaded program whose key matches the regexp.
func (e *Engine) selectFuncs(re *regexp.Regexp) []*ssa.Function {
	var out []*ssa.Function
	for f := range e.allFuncs {
		if f.Pkg == nil && f.Origin() == nil {
			continue
		}
		if f.Synthetic != "" && f.Origin() == nil {
			continue
		}
		if f.TypeParams().Len() > 0 && len(f.TypeArgs()) == 0 {
			continue // type-parametric origin body: verified per instance (//@ instantiate)
		}
		k := e.fnKey(f)
		if re.MatchString(k) || re.MatchString(f.String()) { // contract key (type arguments stripped) or full instance name
			out = append(out, f)
		}
	}
	sort.Slice(out, func(i, j int) bool { return out[i].String() < out[j].String() })
	return out
}

func cmdVC(args []string) {
	fs := flag.NewFlagSet("vc", flag.ExitOnError)
	config := fs.String("config", "G", "load configuration")
	pkgs := fs.String("pkgs", "./...", "package patterns (comma separated)")
	fnre := fs.String("fn", "", "regexp over function keys")
	timeout := fs.Int("timeout", 20000, "per-query timeout ms")
	work := fs.String("work", "/verif/.work/dev", "work dir")
	verbose := fs.Bool("v", false, "verbose")
	extra := fs.String("contracts", "/verif/contracts", "directory with extra contract files (*.contracts)")
	repo := fs.String("repo", "/repo", "repository root (a worktree of circl)")
	fs.Parse(args)
	e, err := newEngine(*repo, *config, strings.Split(*pkgs, ","))
	if err != nil {
		fmt.Fprintln(os.Stderr, err)
		os.Exit(2)
	}
	if err := e.loadAllContracts(*extra); err != nil {
		fmt.Fprintln(os.Stderr, err)
		os.Exit(2)
	}
	re := regexp.MustCompile(*fnre)
	fns := e.selectFuncs(re)
	cfg := SolverCfg{WorkDir: *work, TimeoutMS: *timeout}
	results := e.verifyAll(fns, cfg, 12)
	bad := 0
	for _, r := range results {
		printResult(r, *verbose)
		for _, o := range r.Obs {
			if o.Status != "unsat" && o.Status != "folded" {
				bad++
			}
		}
		if r.GenError != "" {
			bad++
		}
	}
	fmt.Printf("functions=%d failing-obligations=%d\n", len(results), bad)
}

func (e *Engine) verifyAll(fns []*ssa.Function, cfg SolverCfg, par int) []*FuncResult {
	results := make([]*FuncResult, len(fns))
	// frame inference and global scans are not thread-safe: precompute
	e.scanGlobals()
	for _, f := range fns {
		e.frameOf(f)
	}
	// large functions first (long poles), results stay in the caller's order
	order := make([]int, len(fns))
	for i := range order {
		order[i] = i
	}
	size := func(f *ssa.Function) int {
		n := 0
		for _, b := range f.Blocks {
			n += len(b.Instrs)
		}
		return n
	}
	sort.Slice(order, func(a, b int) bool { return size(fns[order[a]]) > size(fns[order[b]]) })
	sem := make(chan struct{}, par)
	var wg sync.WaitGroup
	// generation touches shared engine maps (frames, ids): serialise generation, parallelise solving
	for _, i := range order {
		f := fns[i]
		wg.Add(1)
		sem <- struct{}{}
		go func(i int, f *ssa.Function) {
			defer wg.Done()
			defer func() { <-sem }()
			results[i] = e.verifyFunc(f, cfg)
		}(i, f)
	}
	wg.Wait()
	return results
}

func printResult(r *FuncResult, verbose bool) {
	ok, n := 0, 0
	for _, o := range r.Obs {
		n++
		if o.Status == "unsat" || o.Status == "folded" {
			ok++
		}
	}
	status := "OK"
	if r.GenError != "" {
		status = "GENERR"
	} else if ok != n || len(r.Vacuous) > 0 {
		status = "FAIL"
	}
	fmt.Printf("%-6s %s  obligations=%d discharged=%d presat=%s iter=%d %.1fs\n", status, r.Key, n, ok, r.PreSat, r.Iter, r.Seconds)
	if r.GenError != "" {
		fmt.Println("   ", r.GenError)
	}
	for _, v := range r.Vacuous {
		fmt.Println("    VACUOUS: unreachable under the hypotheses:", v)
	}
	for _, nt := range r.Notes {
		fmt.Println("    note:", nt)
	}
	if verbose && len(r.Dropped) > 0 {
		fmt.Println("    dropped candidates:", r.Dropped)
	}
	for _, o := range r.Obs {
		if o.Status != "unsat" && o.Status != "folded" || verbose {
			fmt.Printf("    %-8s %-40s %s  [%s %.2fs] %s\n", o.Status, o.Ob.Name[strings.LastIndex(o.Ob.Name, "#")+1:], o.Ob.Pos, o.Solver, o.Seconds, o.Ob.Desc)
		}
	}
}

package main

import (
	"fmt"
	"golang.org/x/tools/go/packages"
	"golang.org/x/tools/go/ssa"
	"golang.org/x/tools/go/ssa/ssautil"
)

func main() {
	cfg := &packages.Config{Mode: packages.LoadAllSyntax, Dir: "/repo", BuildFlags: []string{"-tags=purego,verif"}}
	pkgs, err := packages.Load(cfg, "./hpke")
	if err != nil { panic(err) }
	prog, _ := ssautil.AllPackages(pkgs, ssa.InstantiateGenerics|ssa.GlobalDebug)
	prog.Build()
	fmt.Println(len(pkgs), len(prog.AllPackages()))
}

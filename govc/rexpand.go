package main

// Read-over-write expansion (ring mode). Reads (select (select H r) o) of a heap H that is defined as a chain of
// stores are rewritten, by the generator, into nested if-then-else terms over the stored values and the reads of
// the initial heap. The rewriting is the array read-over-write axiom applied exhaustively, so it is an
// equivalence; its purpose is to hand the solver an array-free problem in which only pointer (dis)equalities
// guard polynomial terms -- the combination of array reasoning with non-linear arithmetic is what the solvers
// do not get through in time.

import "strings"

type rexp struct {
	defs     map[string]*Sx
	memo     map[string]*Sx
	steps    int
	allocRef map[string]bool // object references allocated by the function: pairwise distinct, distinct from entry refs
	entryRef func(string) bool
}

// refEq decides equality of two reference terms where the allocation discipline settles it.
func (x *rexp) refEq(a, b *Sx) string {
	if c := synEq(a, b); c != "" {
		return c
	}
	if a.isAtom() && b.isAtom() {
		aa, ab := x.allocRef[a.Atom], x.allocRef[b.Atom]
		if aa && ab {
			return "f"
		}
		if (aa && x.entryRef(b.Atom)) || (ab && x.entryRef(a.Atom)) {
			return "f"
		}
	}
	return ""
}

func sxEq(a, b *Sx) *Sx {
	if a.String() > b.String() {
		a, b = b, a
	}
	return sxApp("=", a, b)
}

// simplifyIte removes tests whose outcome is fixed by an enclosing test of the same condition.
func simplifyIte(s *Sx, ctx map[string]bool, budget *int) *Sx {
	if s.L == nil || *budget <= 0 {
		return s
	}
	*budget--
	if s.head() == "ite" && len(s.L) == 4 {
		k := s.L[1].String()
		if v, ok := ctx[k]; ok {
			if v {
				return simplifyIte(s.L[2], ctx, budget)
			}
			return simplifyIte(s.L[3], ctx, budget)
		}
		if s.L[1].head() == "=" {
			ctx[k] = true
			a := simplifyIte(s.L[2], ctx, budget)
			ctx[k] = false
			b := simplifyIte(s.L[3], ctx, budget)
			delete(ctx, k)
			if a.String() == b.String() {
				return a
			}
			return sxApp("ite", s.L[1], a, b)
		}
	}
	if s.head() == "forall" || s.head() == "exists" {
		return s
	}
	n := &Sx{L: make([]*Sx, len(s.L))}
	for i, c := range s.L {
		n.L[i] = simplifyIte(c, ctx, budget)
	}
	return n
}

func sxAtom(a string) *Sx { return &Sx{Atom: a} }
func sxApp(h string, args ...*Sx) *Sx {
	return &Sx{L: append([]*Sx{{Atom: h}}, args...)}
}

func bvConstOf(s *Sx) (string, bool) {
	if s.L != nil && len(s.L) == 3 && s.L[0].Atom == "_" && strings.HasPrefix(s.L[1].Atom, "bv") {
		return s.L[1].Atom, true
	}
	return "", false
}

// synEq: "t" (syntactically equal), "f" (syntactically different), "" (unknown)
func synEq(a, b *Sx) string {
	as, bs := a.String(), b.String()
	if as == bs {
		return "t"
	}
	if ca, ok := bvConstOf(a); ok {
		if cb, ok2 := bvConstOf(b); ok2 && ca != cb {
			return "f"
		}
		if b.head() == "bvadd" && len(b.L) == 3 {
			return "" // base + k = const: unknown
		}
	}
	split := func(s *Sx) (string, string) {
		if s.head() == "bvadd" && len(s.L) == 3 {
			if c, ok := bvConstOf(s.L[2]); ok {
				return s.L[1].String(), c
			}
		}
		return s.String(), "bv0"
	}
	ba, ka := split(a)
	bb, kb := split(b)
	if ba == bb && ka != kb {
		return "f"
	}
	return ""
}

func sxIte(c string, cond *Sx, a, b *Sx) *Sx {
	switch c {
	case "t":
		return a
	case "f":
		return b
	}
	if a.String() == b.String() {
		return a
	}
	return sxApp("ite", cond, a, b)
}

func (x *rexp) read(h, r, o *Sx) *Sx {
	x.steps++
	if x.steps > 200000 {
		return sxApp("select", sxApp("select", h, r), o)
	}
	key := h.String() + "\x00" + r.String() + "\x00" + o.String()
	if m, ok := x.memo[key]; ok {
		return m
	}
	var out *Sx
	switch {
	case h.isAtom() && x.defs[h.Atom] != nil:
		out = x.read(x.defs[h.Atom], r, o)
	case h.head() == "store" && len(h.L) == 4:
		inner := x.readInner(h.L[3], o)
		c := x.refEq(r, h.L[2])
		if c == "t" {
			out = inner
		} else {
			out = sxIte(c, sxEq(r, h.L[2]), inner, x.read(h.L[1], r, o))
		}
	case h.head() == "ite" && len(h.L) == 4:
		out = sxIte("", h.L[1], x.read(h.L[2], r, o), x.read(h.L[3], r, o))
	default:
		out = sxApp("select", sxApp("select", h, r), o)
	}
	x.memo[key] = out
	return out
}

func (x *rexp) readInner(a, o *Sx) *Sx {
	switch {
	case a.head() == "store" && len(a.L) == 4:
		c := synEq(o, a.L[2])
		v := x.expand(a.L[3])
		if c == "t" {
			return v
		}
		return sxIte(c, sxEq(o, a.L[2]), v, x.readInner(a.L[1], o))
	case a.head() == "select" && len(a.L) == 3:
		return x.read(a.L[1], a.L[2], o)
	case a.head() == "as" || (a.L != nil && a.L[0].head() == "as" && len(a.L) == 2):
		return a.L[1] // ((as const S) v)
	case a.head() == "ite" && len(a.L) == 4:
		return sxIte("", a.L[1], x.readInner(a.L[2], o), x.readInner(a.L[3], o))
	}
	return sxApp("select", a, o)
}

func (x *rexp) expand(s *Sx) *Sx {
	if s.L == nil {
		return s
	}
	if s.head() == "select" && len(s.L) == 3 && s.L[1].head() == "select" && len(s.L[1].L) == 3 {
		h := s.L[1].L[1]
		if (h.isAtom() && x.defs[h.Atom] != nil) || h.head() == "store" || h.head() == "ite" {
			return x.read(h, x.expand(s.L[1].L[2]), x.expand(s.L[2]))
		}
	}
	if s.head() == "forall" || s.head() == "exists" {
		return s // bound variables: leave to the solver
	}
	n := &Sx{L: make([]*Sx, len(s.L))}
	changed := false
	for i, c := range s.L {
		n.L[i] = x.expand(c)
		if n.L[i] != c {
			changed = true
		}
	}
	if !changed {
		return s
	}
	return n
}

// expandReadsScript rewrites the assertions of a script body (one assertion per line). Definitions of heaps
// whose name no longer occurs elsewhere are dropped.
func expandReadsScript(body string, isHeap func(name string) bool, allocRef map[string]bool, entryRef func(string) bool) string {
	lines := strings.Split(body, "\n")
	x := &rexp{defs: map[string]*Sx{}, memo: map[string]*Sx{}, allocRef: allocRef, entryRef: entryRef}
	defLine := map[int]string{}
	parsed := make([]*Sx, len(lines))
	for i, l := range lines {
		if !strings.HasPrefix(l, "(assert ") {
			continue
		}
		sx, err := parseSx(l)
		if err != nil || len(sx.L) != 2 {
			continue
		}
		parsed[i] = sx
		f := sx.L[1]
		if f.head() == "=" && len(f.L) == 3 && f.L[1].isAtom() && isHeap(f.L[1].Atom) && x.defs[f.L[1].Atom] == nil {
			if hd := f.L[2].head(); hd == "store" || hd == "ite" {
				x.defs[f.L[1].Atom] = f.L[2]
				defLine[i] = f.L[1].Atom
			}
		}
	}
	if len(x.defs) == 0 {
		return body
	}
	out := make([]string, len(lines))
	for i, l := range lines {
		out[i] = l
		if parsed[i] == nil {
			continue
		}
		if _, isDef := defLine[i]; isDef {
			continue
		}
		budget := 20000
		out[i] = "(assert " + simplifyIte(x.expand(parsed[i].L[1]), map[string]bool{}, &budget).String() + ")"
	}
	// drop definitions that are no longer referenced (iterating: a heap may be referenced by a later dropped one)
	uses := map[string]int{} // heap name -> number of lines mentioning it
	lineSyms := make([][]string, len(out))
	for j, l := range out {
		seen := map[string]bool{}
		tokenizeSyms(l, func(t string) {
			if x.defs[t] != nil && !seen[t] {
				seen[t] = true
				lineSyms[j] = append(lineSyms[j], t)
				uses[t]++
			}
		})
	}
	for changed := true; changed; {
		changed = false
		for i, nm := range defLine {
			if uses[nm] <= 1 { // only its own definition
				for _, t := range lineSyms[i] {
					uses[t]--
				}
				out[i] = ""
				delete(defLine, i)
				changed = true
			}
		}
	}
	var b strings.Builder
	for _, l := range out {
		if l != "" {
			b.WriteString(l)
			b.WriteByte('\n')
		}
	}
	return b.String()
}

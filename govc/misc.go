package main

import (
	"fmt"
	"go/constant"
	"go/types"
	"math/big"
	"strings"

	"golang.org/x/tools/go/ssa"
)

func bigOfConst(c *ssa.Const) *big.Int {
	v := constant.ToInt(c.Value)
	n, ok := new(big.Int).SetString(v.ExactString(), 10)
	if !ok {
		panic("bad const")
	}
	return n
}

// ---------- uninterpreted / SMT-defined spec functions ----------

type UF struct {
	Name string
	Args []string // sort names: Int, Bool, bvN, Seq
	Ret  string
	Def  string // optional SMT definition text (define-fun body) -- declared via axiom otherwise
}

func smtSortOf(s string) (string, error) {
	switch s {
	case "Int", "Bool":
		return s, nil
	}
	if strings.HasPrefix(s, "bv") || strings.HasPrefix(s, "u") || strings.HasPrefix(s, "s") {
		var w int
		if _, err := fmt.Sscanf(strings.TrimLeft(s, "bvus"), "%d", &w); err == nil && w > 0 {
			return bvSort(w), nil
		}
	}
	return "", fmt.Errorf("unknown sort %q", s)
}

// declareUF parses "Name(sort, sort) sort".
func (e *Engine) declareUF(text string) error {
	i := strings.Index(text, "(")
	j := strings.LastIndex(text, ")")
	if i < 0 || j < i {
		return fmt.Errorf("bad uf declaration %q", text)
	}
	u := &UF{Name: strings.TrimSpace(text[:i]), Ret: strings.TrimSpace(text[j+1:])}
	for _, a := range strings.Split(text[i+1:j], ",") {
		a = strings.TrimSpace(a)
		if a != "" {
			u.Args = append(u.Args, a)
		}
	}
	e.ufs[u.Name] = u
	return nil
}

func (e *Engine) lookupUF(name string) *UF { return e.ufs[name] }

func (vc *VC) applyUF(env *Env, uf *UF, args []*SNode) *Val {
	if len(args) != len(uf.Args) {
		sfail("%s expects %d arguments", uf.Name, len(uf.Args))
	}
	if !vc.trusted["decl:"+uf.Name] {
		vc.trusted["decl:"+uf.Name] = true
		var as []string
		for _, a := range uf.Args {
			s, err := smtSortOf(a)
			if err != nil {
				sfail("%v", err)
			}
			as = append(as, s)
		}
		rs, err := smtSortOf(uf.Ret)
		if err != nil {
			sfail("%v", err)
		}
		vc.decls = append(vc.decls, fmt.Sprintf("(declare-fun %s (%s) %s)", uf.Name, strings.Join(as, " "), rs))
	}
	var ts []string
	for i, a := range args {
		v := vc.compile(env, a)
		want := uf.Args[i]
		switch {
		case want == "Int":
			ts = append(ts, vc.toInt(v))
		case want == "Bool":
			if v.K != KBool {
				sfail("argument %d of %s must be Bool", i+1, uf.Name)
			}
			ts = append(ts, v.C[0])
		default:
			var w int
			fmt.Sscanf(strings.TrimLeft(want, "bvus"), "%d", &w)
			if v.K == KConst {
				v = vc.constTo(v, w, false)
			}
			if v.K != KBV || v.W != w {
				sfail("argument %d of %s must be a %d-bit integer", i+1, uf.Name, w)
			}
			ts = append(ts, v.C[0])
		}
	}
	t := app(uf.Name, ts...)
	switch {
	case uf.Ret == "Int":
		return &Val{K: KInt, C: []string{t}}
	case uf.Ret == "Bool":
		return vc.boolVal(t)
	default:
		var w int
		fmt.Sscanf(strings.TrimLeft(uf.Ret, "bvus"), "%d", &w)
		return vc.bv(t, w, strings.HasPrefix(uf.Ret, "s"), nil)
	}
}

// ---------- integer mode (mathematical integers with explicit wrapping) ----------

func (vc *VC) wrapInt(t string, w int, signed bool, typ types.Type) *Val {
	m := new(big.Int).Lsh(big.NewInt(1), uint(w)).String()
	if !signed {
		return vc.bv(app("mod", t, m), w, signed, typ)
	}
	half := new(big.Int).Lsh(big.NewInt(1), uint(w-1)).String()
	return vc.bv(app("-", app("mod", app("+", t, half), m), half), w, signed, typ)
}

func intLitVal(t string) (int64, bool) {
	n, ok := intLitBig(t)
	if !ok || !n.IsInt64() {
		return 0, false
	}
	return n.Int64(), true
}
func intLitBig(t string) (*big.Int, bool) {
	n, ok := new(big.Int).SetString(t, 10)
	return n, ok
}

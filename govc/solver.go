package main

import (
	"bytes"
	"context"
	"crypto/sha256"
	"fmt"
	"os"
	"os/exec"
	"path/filepath"
	"runtime"
	"sort"
	"strings"
	"sync"
	"time"
)

type ObResult struct {
	Ob      *Obligation
	Status  string // unsat (discharged), sat, unknown, timeout, folded, error
	Solver  string
	Seconds float64
	Model   string
	SMTHash string
	Output  string
	script  string
}

type FuncResult struct {
	Fn       string
	Key      string
	Obs      []*ObResult
	Notes    []string
	GenError string
	Dropped  []string
	Kept     []string
	PreSat   string
	Vacuous  []string // obligations whose path condition is unsatisfiable under the hypotheses (see checkReach)
	Seconds  float64
	Assumed  bool
	Callees  []string
	Inputs   []inputDesc
	vc       *VC
	Iter     int
}

type SolverCfg struct {
	WorkDir   string
	TimeoutMS int
	Race      bool
}

func header() string {
	return "(set-option :produce-models true)\n"
}

// finishScript drops declarations of symbols that are never used and picks the logic.
func finishScript(decls []string, body string) string {
	var b strings.Builder
	var kept []string
	for _, d := range decls {
		if strings.HasPrefix(d, "(declare-const ") || strings.HasPrefix(d, "(declare-fun ") {
			rest := d[strings.Index(d, " ")+1:]
			name := rest[:strings.IndexAny(rest, " ")]
			if !symbolUsed(body, name) && !symbolUsedIn(decls, name, d) {
				continue
			}
		}
		kept = append(kept, d)
	}
	all := strings.Join(kept, "\n") + "\n" + body
	logic := "ALL"
	if !strings.Contains(all, "Array") && !strings.Contains(all, "Int") && !strings.Contains(all, "forall") && !strings.Contains(all, "exists") && !strings.Contains(all, "declare-fun") {
		logic = "QF_BV"
	}
	b.WriteString(header())
	b.WriteString("(set-logic " + logic + ")\n")
	b.WriteString(all)
	return b.String()
}

func symbolUsed(text, name string) bool {
	i := 0
	for {
		j := strings.Index(text[i:], name)
		if j < 0 {
			return false
		}
		k := i + j + len(name)
		if k >= len(text) || !isSymChar(text[k]) {
			if i+j == 0 || !isSymChar(text[i+j-1]) {
				return true
			}
		}
		i = i + j + 1
	}
}

func symbolUsedIn(decls []string, name, self string) bool {
	for _, d := range decls {
		if d == self || strings.HasPrefix(d, "(declare-") {
			continue
		}
		if symbolUsed(d, name) {
			return true
		}
	}
	return false
}

func isSymChar(c byte) bool {
	return c >= 'a' && c <= 'z' || c >= 'A' && c <= 'Z' || c >= '0' && c <= '9' || c == '_' || c == '.' || c == '!' || c == '$'
}

// buildScript: all obligations checked incrementally. If onlyCand, only candidate obligations are checked.
func (vc *VC) buildScript(onlyCand bool) (string, []*Obligation) {
	return vc.buildScriptRange(onlyCand, 0, -1)
}

// buildScriptRange: as buildScript, but only the checked obligations with ordinal in [from, to) are checked (the
// others are assumed, as they are after their own check in the full script); the script ends after the last one.
func (vc *VC) buildScriptRange(onlyCand bool, from, to int) (string, []*Obligation) {
	var b strings.Builder
	for _, ax := range vc.e.axioms {
		b.WriteString("(assert " + ax + ")\n")
	}
	var checked []*Obligation
	ord := 0
	for _, it := range vc.items {
		if it.Ob == nil {
			b.WriteString(it.Text)
			b.WriteByte('\n')
			continue
		}
		ob := it.Ob
		if ob.Term == "true" {
			continue
		}
		if (!onlyCand || ob.Candidate > 0) && !ob.Skip {
			if to >= 0 && ord >= to {
				break
			}
			if ord >= from {
				b.WriteString("(push 1)\n(assert (not " + ob.Term + "))\n(check-sat)\n(pop 1)\n")
				checked = append(checked, ob)
			}
			ord++
		}
		b.WriteString("(assert " + ob.Term + ")\n")
	}
	return finishScript(vc.decls, b.String()), checked
}

// singleScript: the query for one obligation, with model request. The goal is skolemised and the
// quantified hypotheses are additionally instantiated at the goal's skolem constants and at the index
// terms used by the function (sound: instances are consequences of the hypotheses).
func (vc *VC) singleScript(target *Obligation, model bool) string {
	return vc.singleScriptOpt(target, model, false)
}

// singleScriptOpt: deep additionally instantiates the quantified hypotheses at the index terms of the goal's
// array reads, iterated (bounded E-matching done by the generator).
func (vc *VC) singleScriptOpt(target *Obligation, model bool, deep bool) string {
	return vc.singleScriptOpt2(target, model, deep, vc.ringMode)
}

// singleScriptOpt2: sliced additionally drops the hypotheses outside the goal's cone of influence (slice.go).
func (vc *VC) singleScriptOpt2(target *Obligation, model bool, deep bool, sliced bool) string {
	var b strings.Builder
	decls := append([]string{}, vc.decls...)
	for _, ax := range vc.e.axioms {
		b.WriteString("(assert " + ax + ")\n")
	}
	// goal
	goal := target.Term
	var terms []skolem
	nsk := 0
	if strings.Contains(goal, "(forall ") || strings.Contains(goal, "(exists ") {
		if sx, err := parseSx(goal); err == nil {
			var sks []skolem
			g2 := skolemizeGoal(sx, true, func(sort string) string {
				nsk++
				n := fmt.Sprintf("sk!%d", nsk)
				decls = append(decls, fmt.Sprintf("(declare-const %s %s)", n, sort))
				return n
			}, &sks)
			goal = g2.String()
			terms = append(terms, sks...)
		}
	}
	if vc.c == nil || !vc.c.InstGoalOnly {
		for i, t := range vc.indexTerms {
			if i >= 12 {
				break
			}
			terms = append(terms, skolem{t, offSort})
		}
	}
	if vc.c == nil || !vc.c.InstGoalOnly {
		for _, pt := range vc.progTerms {
			dup := false
			for _, t := range terms {
				if t.name == pt.name {
					dup = true
				}
			}
			if !dup {
				terms = append(terms, pt)
			}
		}
	}
	// cut point: position of the target among the items
	tpos := -1
	for i, it := range vc.items {
		if it.Ob == target {
			tpos = i
		}
	}
	var cut *cutPoint
	for i := range vc.cuts {
		if vc.cuts[i].at <= tpos && (cut == nil || vc.cuts[i].at > cut.at) {
			cut = &vc.cuts[i]
		}
	}
	// quantified hypotheses seen so far (parsed), for bounded instantiation before the goal
	type qhyp struct {
		sx   *Sx
		done map[string]bool
	}
	var qhyps []*qhyp
	var extraDecls []string
	var hypWitnesses []skolem
	var emit func(t string)
	emit = func(t string) {
		if strings.Contains(t, "(exists ") {
			// an existential hypothesis is replaced by its skolemised form (fresh witness constants)
			if sx, err := parseSx(t); err == nil {
				var wit []skolem
				sx2 := skolemizeGoal(sx, false, func(sort string) string {
					nsk++
					n := fmt.Sprintf("sk!%d", nsk)
					extraDecls = append(extraDecls, fmt.Sprintf("(declare-const %s %s)", n, sort))
					return n
				}, &wit)
				if len(wit) > 0 {
					t = sx2.String()
					hypWitnesses = append(hypWitnesses, wit...)
				}
			}
		}
		b.WriteString("(assert " + t + ")\n")
		if strings.Contains(t, "(forall ") {
			if sx, err := parseSx(t); err == nil {
				qhyps = append(qhyps, &qhyp{sx, map[string]bool{}})
			}
		}
	}
	instantiateAll := func(goalSx *Sx) {
		termSet := map[string]bool{}
		termSort := map[string]string{}
		for _, t := range terms {
			termSet[t.name] = true
			termSort[t.name] = t.sort
		}
		rounds := 2
		if deep {
			rounds = 3
			if goalSx != nil {
				selectIndices(goalSx, termSet)
			}
		}
		total := 0
		for round := 0; round < rounds && total < 600; round++ {
			var cur []skolem
			for t := range termSet {
				srt := termSort[t]
				if srt == "" {
					srt = offSort // index terms of inner arrays
				}
				cur = append(cur, skolem{t, srt})
			}
			sort.Slice(cur, func(i, j int) bool { return cur[i].name < cur[j].name })
			if len(cur) > 48 {
				cur = cur[:48]
			}
			newTerms := map[string]bool{}
			for _, q := range qhyps {
				var fresh []skolem
				for _, t := range cur {
					if !q.done[t.name] {
						q.done[t.name] = true
						fresh = append(fresh, t)
					}
				}
				if len(fresh) == 0 {
					continue
				}
				for _, in := range instances(q.sx, fresh, 64) {
					// existential witnesses of hypothesis instances become instantiation candidates
					if strings.Contains(in.String(), "(exists ") {
						var wit []skolem
						in = skolemizeGoal(in, false, func(sort string) string {
							nsk++
							n := fmt.Sprintf("sk!%d", nsk)
							extraDecls = append(extraDecls, fmt.Sprintf("(declare-const %s %s)", n, sort))
							return n
						}, &wit)
						for _, w := range wit {
							newTerms[w.name] = true
							termSort[w.name] = w.sort
						}
					}
					b.WriteString("(assert " + in.String() + ")\n")
					total++
					if deep {
						selectIndices(in, newTerms)
					}
				}
			}
			added := false
			for t := range newTerms {
				if !termSet[t] && len(termSet) < 96 {
					termSet[t] = true
					added = true
				}
			}
			if !added {
				break
			}
		}
	}
	var keep []bool
	if sliced && tpos >= 0 {
		keep = vc.sliceItems(goal, tpos)
	}
	for ii, it := range vc.items {
		if cut != nil && ii >= vc.entryItems && ii < cut.from {
			continue // summarised by the cut site's assertions
		}
		if keep != nil && ii < tpos && !keep[ii] {
			continue
		}
		if it.Ob == nil {
			if strings.HasPrefix(it.Text, "(assert ") && strings.Contains(it.Text, "(forall ") {
				emit(it.Text[8 : len(it.Text)-1])
			} else {
				b.WriteString(it.Text)
				b.WriteByte('\n')
			}
			continue
		}
		if it.Ob == target {
			gsx, _ := parseSx(goal)
			// (=> A B) with quantifiers in A: assume A (so that it is instantiated like any hypothesis), prove B
			if gsx != nil && strings.Contains(goal, "(forall ") {
				for gsx.head() == "=>" && len(gsx.L) == 3 {
					var flat func(a *Sx)
					flat = func(a *Sx) {
						if a.head() == "and" {
							for _, c := range a.L[1:] {
								flat(c)
							}
							return
						}
						emit(a.String())
					}
					flat(gsx.L[1])
					gsx = gsx.L[2]
					goal = gsx.String()
				}
			}
			if gsx != nil && len(hypWitnesses) > 0 && strings.Contains(goal, "(exists ") {
				gsx = expandExists(gsx, true, hypWitnesses)
				goal = gsx.String()
			}
			if len(qhyps) > 0 {
				instantiateAll(gsx)
			}
			b.WriteString("(assert (not " + goal + "))\n(check-sat)\n")
			if model {
				b.WriteString("(get-model)\n")
			}
			body := b.String()
			if vc.ringMode {
				hs := heapSort("fe")
				heapNames := map[string]bool{}
				for _, d := range decls {
					if strings.HasPrefix(d, "(declare-const ") && strings.HasSuffix(d, " "+hs+")") {
						heapNames[strings.Fields(d)[1]] = true
					}
				}
				si := vc.sliceData()
				body = expandReadsScript(body, func(n string) bool { return heapNames[n] }, vc.allocRefs,
					func(n string) bool { return si.base[n] && strings.Contains(n, ".pr_") })
			}
			return finishScript(append(decls, extraDecls...), body)
		}
		if it.Ob.Term != "true" {
			emit(it.Ob.Term)
		}
	}
	panic("obligation not found")
}

type solverDef struct {
	name string
	args func(timeoutMS int, file string) []string
}

var solvers = []solverDef{
	{"z3-new", func(t int, f string) []string { return []string{"z3-new", "-smt2", fmt.Sprintf("-t:%d", t), f} }},
	{"z3", func(t int, f string) []string { return []string{"z3", "-smt2", fmt.Sprintf("-t:%d", t), f} }},
	{"cvc5", func(t int, f string) []string {
		return []string{"cvc5", "--incremental", fmt.Sprintf("--tlimit-per=%d", t), f}
	}},
}

// solverSlots bounds the number of solver processes running at once (the checks start many queries in parallel;
// without the bound they time each other out).
var solverSlots = make(chan struct{}, maxInt(4, runtime.NumCPU()))

func maxInt(a, b int) int {
	if a > b {
		return a
	}
	return b
}

func runSolver(sd solverDef, file string, timeoutMS int, hard time.Duration) (string, float64) {
	return runSolverCtx(context.Background(), sd, file, timeoutMS, hard)
}

func runSolverCtx(parent context.Context, sd solverDef, file string, timeoutMS int, hard time.Duration) (string, float64) {
	select {
	case solverSlots <- struct{}{}:
	case <-parent.Done():
		return "", 0
	}
	defer func() { <-solverSlots }()
	ctx, cancel := context.WithTimeout(parent, hard)
	defer cancel()
	a := sd.args(timeoutMS, file)
	cmd := exec.CommandContext(ctx, a[0], a[1:]...)
	var out bytes.Buffer
	cmd.Stdout = &out
	cmd.Stderr = &out
	t0 := time.Now()
	_ = cmd.Run()
	return out.String(), time.Since(t0).Seconds()
}

func parseResults(out string) []string {
	// A solver error reported before a verdict invalidates that verdict AND EVERY LATER ONE of the same run: an
	// ill-formed script must never be read as an answer, and a command that was cancelled by the timeout timer
	// ("push canceled", "canceled" on an assert) leaves the assertion stack in an unknown state -- a cancelled
	// (push) lets the following (assert (not goal)) leak into the base level, after which later goals look proved.
	// Errors after the last verdict (get-model after unsat) are harmless.
	var rs0 []string
	tainted := false
	for _, ln := range strings.Split(out, "\n") {
		l := strings.TrimSpace(ln)
		switch {
		case strings.HasPrefix(l, "(error"):
			if strings.Contains(l, "model is not available") || strings.Contains(l, "Cannot get model") {
				continue
			}
			tainted = true
		case l == "sat" || l == "unsat" || l == "unknown" || l == "timeout":
			if tainted {
				rs0 = append(rs0, "error")
			} else {
				rs0 = append(rs0, l)
			}
		}
	}
	if tainted && len(rs0) == 0 {
		return []string{"error"}
	}
	return rs0
}

func writeFile(dir, name, content string) string {
	os.MkdirAll(dir, 0o755)
	p := filepath.Join(dir, name)
	if err := os.WriteFile(p, []byte(content), 0o644); err != nil {
		panic(err)
	}
	return p
}

func hashOf(s string) string {
	h := sha256.Sum256([]byte(s))
	return fmt.Sprintf("%x", h[:6])
}

// raceSingle runs one obligation on all solvers in parallel; first decisive answer wins.
func raceSingle(vc *VC, ob *Obligation, cfg SolverCfg, fileBase string) *ObResult {
	r := raceSingleOpt(vc, ob, cfg, fileBase, false)
	if r.Status != "unsat" && r.Status != "sat" && strings.Contains(r.script, "(forall ") {
		r2 := raceSingleOpt(vc, ob, cfg, fileBase+".deep", true)
		if r2.Status == "unsat" || r2.Status == "sat" {
			return r2
		}
	}
	if r.Status != "unsat" && r.Status != "sat" {
		// the plain form of the query (exactly what the incremental pass poses: hypotheses as generated, no
		// generator-side instantiation, no slicing) is sometimes the easier one
		if rp := racePlain(vc, ob, cfg, fileBase+".plain"); rp != nil && rp.Status == "unsat" {
			return rp
		}
	}
	if r.Status != "unsat" && r.Status != "sat" && os.Getenv("GOVC_NORETRY") == "" {
		// a solver hiccup (machine load) must not become an alarm: one more attempt with a three-fold cap
		cfg3 := cfg
		cfg3.TimeoutMS = 3 * cfg.TimeoutMS
		r3 := raceSingleOpt(vc, ob, cfg3, fileBase+".retry", false)
		if r3.Status == "unsat" || r3.Status == "sat" {
			return r3
		}
	}
	return r
}

// racePlain poses one obligation as a one-shot query over the items exactly as generated.
func racePlain(vc *VC, target *Obligation, cfg SolverCfg, fileBase string) *ObResult {
	var b strings.Builder
	for _, ax := range vc.e.axioms {
		b.WriteString("(assert " + ax + ")\n")
	}
	found := false
	for _, it := range vc.items {
		if it.Ob == nil {
			b.WriteString(it.Text + "\n")
			continue
		}
		if it.Ob == target {
			b.WriteString("(assert (not " + it.Ob.Term + "))\n(check-sat)\n")
			found = true
			break
		}
		if it.Ob.Term != "true" {
			b.WriteString("(assert " + it.Ob.Term + ")\n")
		}
	}
	if !found {
		return nil
	}
	script := finishScript(vc.decls, b.String())
	file := writeFile(cfg.WorkDir, fileBase+".smt2", script)
	if os.Getenv("GOVC_KEEP") == "" {
		defer os.Remove(file)
	}
	res := &ObResult{Ob: target, Status: "unknown", SMTHash: hashOf(script), script: script}
	for _, sd := range solvers[:2] {
		out, secs := runSolver(sd, file, cfg.TimeoutMS, time.Duration(cfg.TimeoutMS+5000)*time.Millisecond)
		rs := parseResults(out)
		if len(rs) > 0 && rs[0] == "unsat" {
			res.Status, res.Solver, res.Seconds = "unsat", sd.name, secs
			return res
		}
	}
	return res
}

func raceSingleOpt(vc *VC, ob *Obligation, cfg SolverCfg, fileBase string, deep bool) *ObResult {
	script := vc.singleScriptOpt(ob, true, deep)
	file := writeFile(cfg.WorkDir, fileBase+".smt2", script)
	type ans struct {
		solver string
		status string
		out    string
		secs   float64
	}
	ch := make(chan ans, len(solvers))
	var wg sync.WaitGroup
	rctx, rcancel := context.WithCancel(context.Background())
	defer rcancel() // the first conclusive answer stops the other solvers
	for _, sd := range solvers {
		if sd.name == "cvc5" && strings.Contains(script, "(lambda ") {
			continue
		}
		wg.Add(1)
		go func(sd solverDef) {
			defer wg.Done()
			out, secs := runSolverCtx(rctx, sd, file, cfg.TimeoutMS, time.Duration(cfg.TimeoutMS+5000)*time.Millisecond)
			rs := parseResults(out)
			st := "unknown"
			if len(rs) > 0 {
				st = rs[0]
			} else if strings.Contains(out, "error") {
				st = "error"
			}
			ch <- ans{sd.name, st, out, secs}
		}(sd)
	}
	go func() { wg.Wait(); close(ch) }()
	res := &ObResult{Ob: ob, Status: "unknown", SMTHash: hashOf(script), script: script}
	var best *ans
	for a := range ch {
		a := a
		if a.status == "unsat" {
			res.Status, res.Solver, res.Seconds = "unsat", a.solver, a.secs
			return res
		}
		rank := func(st string) int {
			switch st {
			case "sat":
				return 3
			case "unknown", "timeout":
				return 2
			}
			return 1
		}
		if best == nil || rank(a.status) > rank(best.status) {
			best = &a
		}
	}
	if best != nil {
		res.Status, res.Solver, res.Seconds, res.Output = best.status, best.solver, best.secs, best.out
		if best.status == "sat" {
			res.Model = best.out
		}
	}
	return res
}

func fileBaseFor(name string) string {
	s := sanitize(name)
	if len(s) > 150 {
		s = s[len(s)-150:]
	}
	return s
}

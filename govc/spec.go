package main

// Spec expression language: Go expression syntax (scanned with go/scanner)
// extended with ==>, <==>, forall/exists binders and old(...).

import (
	"fmt"
	"go/scanner"
	"go/token"
	"strings"
)

type SNode struct {
	Op   string   // "lit","id","bin","un","call","index","slice","sel","forall","exists","str","paren"
	Tok  string   // operator / identifier / literal text
	Args []*SNode // operands
	// binders for quantifiers
	Vars  []string
	VTyps []string
	Pos   int
}

func (n *SNode) String() string {
	if n == nil {
		return "<nil>"
	}
	switch n.Op {
	case "lit", "id", "str":
		return n.Tok
	case "bin":
		return "(" + n.Args[0].String() + " " + n.Tok + " " + n.Args[1].String() + ")"
	case "un":
		return n.Tok + n.Args[0].String()
	case "call":
		var as []string
		for _, a := range n.Args[1:] {
			as = append(as, a.String())
		}
		return n.Args[0].String() + "(" + strings.Join(as, ", ") + ")"
	case "index":
		return n.Args[0].String() + "[" + n.Args[1].String() + "]"
	case "slice":
		s := n.Args[0].String() + "["
		if n.Args[1] != nil {
			s += n.Args[1].String()
		}
		s += ":"
		if n.Args[2] != nil {
			s += n.Args[2].String()
		}
		return s + "]"
	case "sel":
		return n.Args[0].String() + "." + n.Tok
	case "forall", "exists":
		var vs []string
		for i, v := range n.Vars {
			vs = append(vs, v+" "+n.VTyps[i])
		}
		return "(" + n.Op + " " + strings.Join(vs, ", ") + " :: " + n.Args[0].String() + ")"
	}
	return "?" + n.Op
}

type stok struct {
	tok token.Token
	lit string
	pos int
}

type sparser struct {
	toks []stok
	p    int
	src  string
}

func lexSpec(src string) ([]stok, error) {
	fs := token.NewFileSet()
	f := fs.AddFile("spec", -1, len(src))
	var s scanner.Scanner
	var errs []string
	s.Init(f, []byte(src), func(pos token.Position, msg string) { errs = append(errs, msg) }, 0)
	var out []stok
	for {
		pos, tok, lit := s.Scan()
		if tok == token.EOF {
			break
		}
		if tok == token.SEMICOLON && lit == "\n" {
			continue
		}
		out = append(out, stok{tok, lit, int(pos) - f.Base()})
	}
	if len(errs) > 0 {
		return nil, fmt.Errorf("lex %q: %s", src, strings.Join(errs, "; "))
	}
	return out, nil
}

func parseSpec(src string) (n *SNode, err error) {
	toks, err := lexSpec(src)
	if err != nil {
		return nil, err
	}
	p := &sparser{toks: toks, src: src}
	defer func() {
		if r := recover(); r != nil {
			if e, ok := r.(specErr); ok {
				err = fmt.Errorf("parse %q: %s", src, string(e))
				return
			}
			panic(r)
		}
	}()
	n = p.parseImpl()
	if p.p < len(p.toks) {
		p.fail("trailing tokens at %q", p.toks[p.p].lit+p.toks[p.p].tok.String())
	}
	return n, nil
}

type specErr string

func (p *sparser) fail(f string, a ...interface{}) { panic(specErr(fmt.Sprintf(f, a...))) }

func (p *sparser) peek() stok {
	if p.p < len(p.toks) {
		return p.toks[p.p]
	}
	return stok{tok: token.EOF}
}
func (p *sparser) next() stok { t := p.peek(); p.p++; return t }
func (p *sparser) accept(t token.Token) bool {
	if p.peek().tok == t {
		p.p++
		return true
	}
	return false
}
func (p *sparser) expect(t token.Token) stok {
	if p.peek().tok != t {
		p.fail("expected %s, got %s %q", t, p.peek().tok, p.peek().lit)
	}
	return p.next()
}

// adjacency test: token i and i+1 touch in source
func (p *sparser) adjacent(i int) bool {
	if i+1 >= len(p.toks) {
		return false
	}
	a, b := p.toks[i], p.toks[i+1]
	al := len(a.lit)
	if al == 0 {
		al = len(a.tok.String())
	}
	return a.pos+al == b.pos
}

// <==> : LSS EQL GTR  ("<" "==" ">") ; ==> : EQL GTR
func (p *sparser) isIff() bool {
	return p.p+2 < len(p.toks) && p.toks[p.p].tok == token.LEQ && p.toks[p.p+1].tok == token.ASSIGN && p.toks[p.p+2].tok == token.GTR && p.adjacent(p.p) && p.adjacent(p.p+1)
}
func (p *sparser) isImpl() bool {
	return p.p+1 < len(p.toks) && p.toks[p.p].tok == token.EQL && p.toks[p.p+1].tok == token.GTR && p.adjacent(p.p)
}

// impl := iff-level ; right assoc ==>
func (p *sparser) parseImpl() *SNode {
	l := p.parseBin(1)
	if p.isIff() {
		p.p += 3
		r := p.parseImpl()
		return &SNode{Op: "bin", Tok: "<==>", Args: []*SNode{l, r}}
	}
	if p.isImpl() {
		p.p += 2
		r := p.parseImpl()
		return &SNode{Op: "bin", Tok: "==>", Args: []*SNode{l, r}}
	}
	return l
}

func prec(t token.Token) int {
	switch t {
	case token.LOR:
		return 1
	case token.LAND:
		return 2
	case token.EQL, token.NEQ, token.LSS, token.LEQ, token.GTR, token.GEQ:
		return 3
	case token.ADD, token.SUB, token.OR, token.XOR:
		return 4
	case token.MUL, token.QUO, token.REM, token.SHL, token.SHR, token.AND, token.AND_NOT:
		return 5
	}
	return 0
}

func (p *sparser) parseBin(minPrec int) *SNode {
	l := p.parseUnary()
	for {
		if p.isImpl() || p.isIff() {
			return l
		}
		t := p.peek()
		pr := prec(t.tok)
		if pr == 0 || pr < minPrec {
			return l
		}
		p.next()
		r := p.parseBin(pr + 1)
		l = &SNode{Op: "bin", Tok: t.tok.String(), Args: []*SNode{l, r}}
	}
}

func (p *sparser) parseUnary() *SNode {
	t := p.peek()
	switch t.tok {
	case token.SUB, token.NOT, token.XOR, token.MUL, token.ADD, token.AND:
		p.next()
		x := p.parseUnary()
		return &SNode{Op: "un", Tok: t.tok.String(), Args: []*SNode{x}}
	}
	return p.parsePostfix(p.parsePrimary())
}

func (p *sparser) parsePrimary() *SNode {
	t := p.next()
	switch t.tok {
	case token.INT, token.CHAR:
		return &SNode{Op: "lit", Tok: t.lit}
	case token.STRING:
		return &SNode{Op: "str", Tok: t.lit}
	case token.LPAREN:
		x := p.parseImpl()
		p.expect(token.RPAREN)
		return x
	case token.IDENT:
		if t.lit == "forall" || t.lit == "exists" {
			n := &SNode{Op: t.lit}
			for {
				v := p.expect(token.IDENT)
				typ := "int"
				if p.peek().tok == token.IDENT {
					typ = p.next().lit
				}
				n.Vars = append(n.Vars, v.lit)
				n.VTyps = append(n.VTyps, typ)
				if !p.accept(token.COMMA) {
					break
				}
			}
			// "::" scans as COLON COLON
			p.expect(token.COLON)
			p.expect(token.COLON)
			body := p.parseImpl()
			n.Args = []*SNode{body}
			return n
		}
		return &SNode{Op: "id", Tok: t.lit}
	case token.LBRACK:
		// array type conversion not supported
	}
	p.fail("unexpected token %s %q", t.tok, t.lit)
	return nil
}

func (p *sparser) parsePostfix(x *SNode) *SNode {
	for {
		t := p.peek()
		switch t.tok {
		case token.PERIOD:
			p.next()
			id := p.expect(token.IDENT)
			x = &SNode{Op: "sel", Tok: id.lit, Args: []*SNode{x}}
		case token.LPAREN:
			p.next()
			args := []*SNode{x}
			for p.peek().tok != token.RPAREN {
				args = append(args, p.parseImpl())
				if !p.accept(token.COMMA) {
					break
				}
			}
			p.expect(token.RPAREN)
			x = &SNode{Op: "call", Args: args}
		case token.LBRACK:
			p.next()
			var lo, hi *SNode
			if p.peek().tok != token.COLON {
				lo = p.parseImpl()
			}
			if p.accept(token.COLON) {
				if p.peek().tok != token.RBRACK {
					hi = p.parseImpl()
				}
				p.expect(token.RBRACK)
				x = &SNode{Op: "slice", Args: []*SNode{x, lo, hi}}
			} else {
				p.expect(token.RBRACK)
				x = &SNode{Op: "index", Args: []*SNode{x, lo}}
			}
		default:
			return x
		}
	}
}

package main

// Minimal S-expression handling used for goal skolemisation and hypothesis instantiation.

import (
	"fmt"
	"strings"
)

type Sx struct {
	Atom string
	L    []*Sx
}

func (s *Sx) isAtom() bool { return s.L == nil && s.Atom != "" }

func (s *Sx) String() string {
	if s.L == nil {
		return s.Atom
	}
	var b strings.Builder
	s.write(&b)
	return b.String()
}

func (s *Sx) write(b *strings.Builder) {
	if s.L == nil {
		b.WriteString(s.Atom)
		return
	}
	b.WriteByte('(')
	for i, c := range s.L {
		if i > 0 {
			b.WriteByte(' ')
		}
		c.write(b)
	}
	b.WriteByte(')')
}

func parseSx(src string) (*Sx, error) {
	pos := 0
	var parse func() (*Sx, error)
	parse = func() (*Sx, error) {
		for pos < len(src) && (src[pos] == ' ' || src[pos] == '\n' || src[pos] == '\t') {
			pos++
		}
		if pos >= len(src) {
			return nil, fmt.Errorf("unexpected end")
		}
		if src[pos] == '(' {
			pos++
			n := &Sx{L: []*Sx{}}
			for {
				for pos < len(src) && (src[pos] == ' ' || src[pos] == '\n' || src[pos] == '\t') {
					pos++
				}
				if pos >= len(src) {
					return nil, fmt.Errorf("unbalanced")
				}
				if src[pos] == ')' {
					pos++
					return n, nil
				}
				c, err := parse()
				if err != nil {
					return nil, err
				}
				n.L = append(n.L, c)
			}
		}
		start := pos
		if src[pos] == '|' {
			pos++
			for pos < len(src) && src[pos] != '|' {
				pos++
			}
			pos++
			return &Sx{Atom: src[start:pos]}, nil
		}
		for pos < len(src) && !strings.ContainsRune(" \n\t()", rune(src[pos])) {
			pos++
		}
		return &Sx{Atom: src[start:pos]}, nil
	}
	return parse()
}

func (s *Sx) head() string {
	if s.L != nil && len(s.L) > 0 && s.L[0].isAtom() {
		return s.L[0].Atom
	}
	return ""
}

func (s *Sx) subst(m map[string]*Sx) *Sx {
	if s.L == nil {
		if r, ok := m[s.Atom]; ok {
			return r
		}
		return s
	}
	n := &Sx{L: make([]*Sx, len(s.L))}
	for i, c := range s.L {
		n.L[i] = c.subst(m)
	}
	return n
}

type skolem struct {
	name string
	sort string
}

// skolemizeGoal removes universal quantifiers in positive positions of a goal (and existential ones in
// negative positions), replacing bound variables by fresh constants.
func skolemizeGoal(g *Sx, pos bool, fresh func(sort string) string, out *[]skolem) *Sx {
	switch g.head() {
	case "=>":
		if len(g.L) == 3 {
			return &Sx{L: []*Sx{g.L[0], skolemizeGoal(g.L[1], !pos, fresh, out), skolemizeGoal(g.L[2], pos, fresh, out)}}
		}
	case "and", "or":
		n := &Sx{L: []*Sx{g.L[0]}}
		for _, c := range g.L[1:] {
			n.L = append(n.L, skolemizeGoal(c, pos, fresh, out))
		}
		return n
	case "not":
		if len(g.L) == 2 {
			return &Sx{L: []*Sx{g.L[0], skolemizeGoal(g.L[1], !pos, fresh, out)}}
		}
	case "forall", "exists":
		if (g.head() == "forall") == pos && len(g.L) == 3 {
			m := map[string]*Sx{}
			for _, b := range g.L[1].L {
				if len(b.L) != 2 {
					return g
				}
				sort := b.L[1].String()
				nm := fresh(sort)
				*out = append(*out, skolem{nm, sort})
				m[b.L[0].Atom] = &Sx{Atom: nm}
			}
			body := g.L[2]
			if body.head() == "!" && len(body.L) >= 2 {
				body = body.L[1]
			}
			return skolemizeGoal(body.subst(m), pos, fresh, out)
		}
	}
	return g
}

// instances returns instances of universally quantified (positive) sub-formulas of hypothesis h, obtained
// by substituting the given terms for single bound variables of matching sort. Guards on the path
// (antecedents of =>) are kept.
func instances(h *Sx, terms []skolem, limit int) []*Sx {
	var out []*Sx
	var walk func(f *Sx, guards []*Sx)
	walk = func(f *Sx, guards []*Sx) {
		if len(out) >= limit {
			return
		}
		switch f.head() {
		case "=>":
			if len(f.L) == 3 {
				walk(f.L[2], append(append([]*Sx{}, guards...), f.L[1]))
			}
		case "and":
			for _, c := range f.L[1:] {
				walk(c, guards)
			}
		case "forall":
			if len(f.L) == 3 && len(f.L[1].L) > 1 && len(f.L[1].L) <= 3 {
				// several binders: every sort-compatible tuple of the given terms (bounded)
				bs := f.L[1].L
				body := f.L[2]
				if body.head() == "!" && len(body.L) >= 2 {
					body = body.L[1]
				}
				var rec func(k int, m map[string]*Sx)
				count := 0
				rec = func(k int, m map[string]*Sx) {
					if count >= 27 || len(out) >= limit {
						return
					}
					if k == len(bs) {
						inst := body.subst(m)
						for i := len(guards) - 1; i >= 0; i-- {
							inst = &Sx{L: []*Sx{{Atom: "=>"}, guards[i], inst}}
						}
						out = append(out, inst)
						count++
						return
					}
					if len(bs[k].L) != 2 {
						return
					}
					srt := bs[k].L[1].String()
					for _, t := range terms {
						if t.sort != srt {
							continue
						}
						m2 := map[string]*Sx{}
						for kk, vv := range m {
							m2[kk] = vv
						}
						m2[bs[k].L[0].Atom] = &Sx{Atom: t.name}
						rec(k+1, m2)
					}
				}
				rec(0, map[string]*Sx{})
				return
			}
			if len(f.L) != 3 || len(f.L[1].L) != 1 || len(f.L[1].L[0].L) != 2 {
				return
			}
			b := f.L[1].L[0]
			sort := b.L[1].String()
			body := f.L[2]
			if body.head() == "!" && len(body.L) >= 2 {
				body = body.L[1]
			}
			for _, t := range terms {
				if t.sort != sort {
					continue
				}
				inst := body.subst(map[string]*Sx{b.L[0].Atom: {Atom: t.name}})
				for i := len(guards) - 1; i >= 0; i-- {
					inst = &Sx{L: []*Sx{{Atom: "=>"}, guards[i], inst}}
				}
				out = append(out, inst)
				if len(out) >= limit {
					return
				}
			}
		}
	}
	walk(h, nil)
	return out
}

// selectIndices collects the index terms I of sub-terms (select X I) whose index is not a literal.
func selectIndices(f *Sx, out map[string]bool) {
	if f.L == nil {
		return
	}
	if f.head() == "select" && len(f.L) == 3 && (f.L[1].head() == "select" || strings.HasPrefix(f.L[1].Atom, "A_")) {
		idx := f.L[2].String()
		if !strings.HasPrefix(idx, "(_ bv") && !strings.HasPrefix(idx, "#") {
			if _, isInt := intLitBig(idx); !isInt {
				out[idx] = true
			}
		}
	}
	if f.head() == "forall" || f.head() == "exists" {
		return // indices under binders mention bound variables
	}
	for _, c := range f.L {
		selectIndices(c, out)
	}
}

// expandExists: an existential in a positive position of a goal is weakened-by-cases into the disjunction of
// its instances at the given witness constants (single binder, matching sort) plus the original existential.
func expandExists(g *Sx, pos bool, wit []skolem) *Sx {
	switch g.head() {
	case "=>":
		if len(g.L) == 3 {
			return &Sx{L: []*Sx{g.L[0], expandExists(g.L[1], !pos, wit), expandExists(g.L[2], pos, wit)}}
		}
	case "and", "or":
		n := &Sx{L: []*Sx{g.L[0]}}
		for _, c := range g.L[1:] {
			n.L = append(n.L, expandExists(c, pos, wit))
		}
		return n
	case "not":
		if len(g.L) == 2 {
			return &Sx{L: []*Sx{g.L[0], expandExists(g.L[1], !pos, wit)}}
		}
	case "exists":
		if pos && len(g.L) == 3 && len(g.L[1].L) == 1 && len(g.L[1].L[0].L) == 2 {
			b := g.L[1].L[0]
			srt := b.L[1].String()
			alts := []*Sx{{Atom: "or"}}
			for _, w := range wit {
				if w.sort == srt && len(alts) < 10 {
					alts = append(alts, g.L[2].subst(map[string]*Sx{b.L[0].Atom: {Atom: w.name}}))
				}
			}
			if len(alts) > 1 {
				alts = append(alts, g)
				return &Sx{L: alts}
			}
		}
	}
	return g
}

package main

import (
	"fmt"
	"go/ast"
	"go/token"
	"go/types"

	"golang.org/x/tools/go/ssa"
)

// assignLoopOrdinals maps each SSA loop head to the ordinal of its for/range statement
// (source order within the function).
func (vc *VC) assignLoopOrdinals() {
	syn := vc.fn.Syntax()
	if syn == nil {
		return
	}
	var stmts []ast.Node
	ast.Inspect(syn, func(n ast.Node) bool {
		switch n.(type) {
		case *ast.ForStmt, *ast.RangeStmt:
			stmts = append(stmts, n)
		case *ast.FuncLit:
			if n != syn {
				return false
			}
		}
		return true
	})
	for _, li := range vc.loops {
		// innermost statement containing all positioned instructions of the loop
		best := -1
		for i, st := range stmts {
			ok := true
			any := false
			for b := range li.blocks {
				for _, ins := range b.Instrs {
					p := ins.Pos()
					if _, isphi := ins.(*ssa.Phi); isphi {
						continue // a phi carries the position of the variable's declaration
					}
					if dr, isdr := ins.(*ssa.DebugRef); isdr {
						p = dr.Expr.Pos()
					}
					if !p.IsValid() {
						continue
					}
					any = true
					if p < st.Pos() || p >= st.End() {
						ok = false
					}
				}
			}
			if ok && any {
				if best < 0 || (stmts[best].Pos() <= st.Pos() && st.End() <= stmts[best].End()) {
					best = i
				}
			}
		}
		if best >= 0 {
			li.ord = best + 1
			li.pos = stmts[best].Pos()
		}
	}
}

func (vc *VC) prepareLoop(li *loopInfo) {
	if li.invs != nil {
		return
	}
	li.invs = []*loopInv{}
	if vc.c != nil && li.ord > 0 {
		for i, cl := range vc.c.Loops[li.ord] {
			li.invs = append(li.invs, &loopInv{src: cl.N, text: cl.Src, key: fmt.Sprintf("L%d.user%d", li.ord, i)})
		}
	}
	if vc.c == nil || !vc.c.NoAuto {
		vc.autoCandidates(li)
	}
}

// autoCandidates proposes simple bounds invariants for counting loops (Houdini keeps the inductive ones).
func (vc *VC) autoCandidates(li *loopInfo) {
	h := li.head
	for _, ins := range h.Instrs {
		phi, ok := ins.(*ssa.Phi)
		if !ok {
			break
		}
		k, w, signed := scalarKind(phi.Type())
		if k != KBV {
			continue
		}
		_ = w
		// find init (from outside) and step (from inside)
		var initV ssa.Value
		var step int64
		stepOK := false
		for i, e := range phi.Edges {
			p := h.Preds[i]
			if li.blocks[p] {
				if bo, ok := e.(*ssa.BinOp); ok && (bo.Op == token.ADD || bo.Op == token.SUB) {
					if bo.X == phi {
						if c, ok := bo.Y.(*ssa.Const); ok && c.Value != nil {
							s := c.Int64()
							if bo.Op == token.SUB {
								s = -s
							}
							step = s
							stepOK = true
						}
					}
				}
			} else {
				initV = e
			}
		}
		if !stepOK || initV == nil || step == 0 {
			continue
		}
		phiC := phi
		name := phi.Comment
		if name == "" {
			name = phi.Name()
		}
		cmp := func(op token.Token, other ssa.Value, phiPlus int64, desc string) {
			key := fmt.Sprintf("L%d.auto.%s.%s", li.ord, phi.Name(), desc)
			li.invs = append(li.invs, &loopInv{candidate: true, key: key, text: "auto: " + name + " " + desc,
				autoTerm: func(over map[*ssa.Phi]*Val) string {
					pv := vc.phiVal(phiC, over)
					if phiPlus != 0 {
						pv = vc.binop(token.ADD, pv, vc.intConstLike(pv, phiPlus), pv.T)
					}
					ov := vc.valMaybe(other)
					if ov == nil {
						return "true"
					}
					return vc.binop(op, pv, ov, nil).C[0]
				}})
		}
		// lower/upper bound from init
		if step > 0 {
			cmp(token.GEQ, initV, 0, ">= init")
		} else {
			cmp(token.LEQ, initV, 0, "<= init")
		}
		// bounds from comparisons in the loop involving phi or phi+step
		for b := range li.blocks {
			for _, in2 := range b.Instrs {
				bo, ok := in2.(*ssa.BinOp)
				if !ok {
					continue
				}
				switch bo.Op {
				case token.LSS, token.LEQ, token.GTR, token.GEQ, token.NEQ:
				default:
					continue
				}
				var other ssa.Value
				var onPhi bool
				flipped := false
				isPhiLike := func(v ssa.Value) bool {
					if v == phi {
						return true
					}
					if b2, ok := v.(*ssa.BinOp); ok && b2.X == phi && (b2.Op == token.ADD || b2.Op == token.SUB) {
						if _, ok := b2.Y.(*ssa.Const); ok {
							return true
						}
					}
					return false
				}
				if isPhiLike(bo.X) {
					other, onPhi = bo.Y, true
				} else if isPhiLike(bo.Y) {
					other, onPhi, flipped = bo.X, true, true
				}
				if !onPhi || vc.inLoop(li, other) {
					continue
				}
				_ = flipped
				_ = signed
				if step > 0 {
					cmp(token.LEQ, other, 0, fmt.Sprintf("<= %s", other.Name()))
					cmp(token.LSS, other, 0, fmt.Sprintf("< %s", other.Name()))
					cmp(token.LEQ, other, step, fmt.Sprintf("+%d <= %s", step, other.Name()))
				} else {
					cmp(token.GEQ, other, 0, fmt.Sprintf(">= %s", other.Name()))
					cmp(token.GEQ, other, step, fmt.Sprintf("%d >= %s", step, other.Name()))
				}
			}
		}
		// range loops: rangeindex phi starts at -1 and is compared as (phi+1) < len
	}
}

func (vc *VC) intConstLike(v *Val, n int64) *Val {
	if vc.intMode {
		return vc.bv(fmt.Sprint(n), v.W, v.Signed, v.T)
	}
	return vc.bv(bvLitI(v.W, n), v.W, v.Signed, v.T)
}

func (vc *VC) valMaybe(v ssa.Value) *Val {
	if x, ok := vc.vals[v]; ok {
		return x
	}
	switch v.(type) {
	case *ssa.Const, *ssa.Global:
		return vc.val(v)
	}
	return nil
}

func (vc *VC) phiVal(phi *ssa.Phi, over map[*ssa.Phi]*Val) *Val {
	if over != nil {
		if v, ok := over[phi]; ok {
			return v
		}
	}
	return vc.vals[phi]
}

// evalInv compiles a loop invariant in the given heap; over maps head phis to edge-specific values.
func (vc *VC) evalInv(li *loopInfo, inv *loopInv, heap *Heap, over map[*ssa.Phi]*Val) (t string) {
	if inv.autoTerm != nil {
		return inv.autoTerm(over)
	}
	env := vc.entryEnv()
	env.heap = heap
	env.local = func(name string) *Val { return vc.localAt(li, name, over, heap) }
	env.localFirst = true
	defer func() {
		if r := recover(); r != nil {
			if sf, ok := r.(specFail); ok {
				panic(specFail(fmt.Sprintf("loop %d invariant %q: %s", li.ord, inv.text, string(sf))))
			}
			panic(r)
		}
	}()
	return vc.compileBool(env, inv.src)
}

// localAt resolves a source-level local variable name at a loop head.
func (vc *VC) localAt(li *loopInfo, name string, over map[*ssa.Phi]*Val, heap *Heap) *Val {
	// 1. phi at this head
	for _, ins := range li.head.Instrs {
		phi, ok := ins.(*ssa.Phi)
		if !ok {
			break
		}
		if phi.Comment == name {
			return vc.phiVal(phi, over)
		}
	}
	// 1b. phis of enclosing loops are candidates; the reaching definition is the candidate defined deepest in
	// the dominator tree (see below)
	var encl []*loopInfo
	for _, lo := range vc.loops {
		if lo != li && lo.blocks[li.head] {
			encl = append(encl, lo)
		}
	}
	var outerPhis []ssa.Value
	for _, lo := range encl {
		for _, ins := range lo.head.Instrs {
			phi, ok := ins.(*ssa.Phi)
			if !ok {
				break
			}
			if phi.Comment == name {
				if _, ok := vc.vals[phi]; ok {
					outerPhis = append(outerPhis, phi)
				}
			}
		}
	}
	// 2. the variable object in scope at the loop
	obj := vc.lookupVar(name, li.pos)
	// 3. address-taken local
	for _, b := range vc.fn.Blocks {
		for _, ins := range b.Instrs {
			if al, ok := ins.(*ssa.Alloc); ok && al.Comment == name {
				if p, ok := vc.vals[al]; ok && (b == li.head || b.Dominates(li.head)) {
					et := al.Type().Underlying().(*types.Pointer).Elem()
					return vc.load(heap, layoutOf(et), et, p.C[0], p.C[1])
				}
			}
		}
	}
	// 4. debug refs: value of the variable valid at head
	var best ssa.Value
	var bestBlock *ssa.BasicBlock
	for _, b := range vc.fn.Blocks {
		for _, ins := range b.Instrs {
			dr, ok := ins.(*ssa.DebugRef)
			if !ok || dr.IsAddr {
				continue
			}
			id, ok := dr.Expr.(*ast.Ident)
			if !ok || id.Name != name {
				continue
			}
			if obj != nil && dr.Object() != nil && dr.Object() != obj {
				continue
			}
			x := dr.X
			// the value must be available at the head: defined in a block that dominates it (or a non-instruction)
			if xi, ok := x.(ssa.Instruction); ok {
				xb := xi.Block()
				if !(xb == li.head && (isPhi(x) || vc.pureAtHead(li, x, 0))) && !(xb != li.head && xb.Dominates(li.head)) {
					continue
				}
			}
			// the reference itself must be inside the loop or dominate the head
			inLoop := li.blocks[b]
			if !inLoop && !b.Dominates(li.head) {
				continue
			}
			if _, ok := vc.vals[x]; !ok {
				if _, isConst := x.(*ssa.Const); !isConst && !vc.pureAtHead(li, x, 0) {
					continue
				}
			}
			if inLoop {
				// a use inside the loop whose value dominates the head is the head value
				if best == nil || !li.blocks[bestBlock] {
					best, bestBlock = x, b
				}
			} else if best == nil || (!li.blocks[bestBlock] && (bestBlock.Dominates(b) || bestBlock == b)) {
				best, bestBlock = x, b
			}
		}
	}
	// compare with enclosing-loop phis: the candidate defined deepest in the dominator tree is the reaching one
	depth := func(v ssa.Value) int {
		ins, ok := v.(ssa.Instruction)
		if !ok {
			return -1
		}
		d := 0
		for b := ins.Block(); b != nil; b = b.Idom() {
			d++
		}
		return d
	}
	for _, op := range outerPhis {
		if best == nil || (!li.blocks[bestBlock] && depth(op) > depth(best)) {
			best = op
			bestBlock = op.(ssa.Instruction).Block()
		}
	}
	if best != nil {
		return vc.evalAtHead(li, best, over)
	}
	return nil
}

// pureAtHead: x is a pure expression over head phis and values available at the head
// (e.g. the range index t = phi + 1 computed at the top of the head block).
func (vc *VC) pureAtHead(li *loopInfo, x ssa.Value, d int) bool {
	if d > 6 {
		return false
	}
	xi, ok := x.(ssa.Instruction)
	if !ok {
		return true
	}
	if xi.Block() != li.head {
		return xi.Block().Dominates(li.head)
	}
	switch v := x.(type) {
	case *ssa.Phi:
		return true
	case *ssa.BinOp:
		return vc.pureAtHead(li, v.X, d+1) && vc.pureAtHead(li, v.Y, d+1)
	case *ssa.Convert:
		return vc.pureAtHead(li, v.X, d+1)
	}
	return false
}

func (vc *VC) evalAtHead(li *loopInfo, x ssa.Value, over map[*ssa.Phi]*Val) *Val {
	xi, ok := x.(ssa.Instruction)
	if !ok || xi.Block() != li.head {
		return vc.val(x)
	}
	switch v := x.(type) {
	case *ssa.Phi:
		return vc.phiVal(v, over)
	case *ssa.BinOp:
		return vc.binop(v.Op, vc.evalAtHead(li, v.X, over), vc.evalAtHead(li, v.Y, over), v.Type())
	case *ssa.Convert:
		a := vc.evalAtHead(li, v.X, over)
		_, w, s := scalarKind(v.Type())
		return vc.convInt(a, w, s, v.Type())
	}
	return vc.val(x)
}

func isPhi(v ssa.Value) bool { _, ok := v.(*ssa.Phi); return ok }

func (vc *VC) lookupVar(name string, pos token.Pos) types.Object {
	if vc.fn.Pkg == nil || !pos.IsValid() {
		return nil
	}
	sc := vc.fn.Pkg.Pkg.Scope().Innermost(pos)
	if sc == nil {
		return nil
	}
	// look inside the loop statement's own scope first (the loop variable is declared there)
	for i := 0; i < sc.NumChildren(); i++ {
		ch := sc.Child(i)
		if ch.Pos() <= pos && pos < ch.End() {
			if o := ch.Lookup(name); o != nil {
				return o
			}
		}
	}
	_, o := sc.LookupParent(name, pos)
	if _, ok := o.(*types.Var); ok {
		return o
	}
	return nil
}

// localAtInstr resolves a source-level local variable at an instruction (used by callsite clauses):
// the most recent definition/reference of the variable that dominates the instruction.
func (vc *VC) localAtInstr(name string, at ssa.Instruction, heap *Heap) *Val {
	atBlock := at.Block()
	// address-taken local
	for _, b := range vc.fn.Blocks {
		for _, ins := range b.Instrs {
			if al, ok := ins.(*ssa.Alloc); ok && al.Comment == name {
				if p, ok := vc.vals[al]; ok && (b == atBlock || b.Dominates(atBlock)) {
					et := al.Type().Underlying().(*types.Pointer).Elem()
					return vc.load(heap, layoutOf(et), et, p.C[0], p.C[1])
				}
			}
		}
	}
	var best ssa.Value
	var bestBlock *ssa.BasicBlock
	bestIdx := -1
	for _, b := range vc.fn.Blocks {
		if b != atBlock && !b.Dominates(atBlock) {
			continue
		}
		for i, ins := range b.Instrs {
			if ins == at && b == atBlock {
				break
			}
			dr, ok := ins.(*ssa.DebugRef)
			if !ok || dr.IsAddr {
				continue
			}
			id, ok := dr.Expr.(*ast.Ident)
			if !ok || id.Name != name {
				continue
			}
			if _, ok := vc.vals[dr.X]; !ok {
				if _, isConst := dr.X.(*ssa.Const); !isConst {
					continue
				}
			}
			later := best == nil || (bestBlock == b && i > bestIdx) || (bestBlock != b && bestBlock.Dominates(b))
			if later {
				best, bestBlock, bestIdx = dr.X, b, i
			}
		}
	}
	if best != nil {
		return vc.val(best)
	}
	// a compiler-named loop variable (go/ssa's "rangeindex" of a range loop): the phi of the closest loop head that
	// dominates this point, i.e. its value at the last visit of that head
	var bestPhi *ssa.Phi
	for _, b := range vc.fn.Blocks {
		if b != atBlock && !b.Dominates(atBlock) {
			continue
		}
		for _, ins := range b.Instrs {
			phi, ok := ins.(*ssa.Phi)
			if !ok {
				break
			}
			if phi.Comment == name {
				if _, ok := vc.vals[phi]; ok && (bestPhi == nil || bestPhi.Block().Dominates(b)) {
					bestPhi = phi
				}
			}
		}
	}
	if bestPhi != nil {
		return vc.val(bestPhi)
	}
	return nil
}

package main

import (
	"bufio"
	"fmt"
	"os"
	"path/filepath"
	"regexp"
	"strconv"
	"strings"

	"golang.org/x/tools/go/ssa"
)

type Clause struct {
	Src   string
	N     *SNode
	Label string
	Mode  string // "", "bv" or "int": the VC mode this clause belongs to ("" = the contract's own mode)
	File  string
	Line  int
}

type Contract struct {
	Key          string
	File         string
	Line         int
	Requires     []*Clause
	Ensures      []*Clause
	PanicsIf     []*Clause
	Assigns      []*Clause
	HasAssigns   bool
	AssignsAny   bool
	Loops        map[int][]*Clause
	Unroll       map[int]int
	Assumed      bool // contract is trusted, body not verified
	AssumedWhy   string
	Mode         string
	NoAuto       bool // no automatic candidate invariants
	Wraps        bool // discarded carries are intended (arithmetic modulo 2^k)
	Fresh        []*Clause
	CallSites    []*CallSite
	Nullable     map[string]bool
	InstGoalOnly bool
	Cuts         []*CutSpec
	LoopCalls    map[int][]CutSpec // loop N: calls Name#K
	LineAsserts  []*LineAssert
	used         bool
	extOnly      bool // created by `func+` only so far
}

// clauseMode: the VC mode a clause is written for.
func (c *Contract) clauseMode(cl *Clause) string {
	if cl.Mode == "any" {
		return curModeName() // mode-neutral clause: compiled in whatever mode the current VC uses
	}
	if cl.Mode == "ringax" {
		return "ring" // ring-level statement about a leaf field operation (justified by the L1->L2 meta-theorem)
	}
	if cl.Mode != "" {
		return cl.Mode
	}
	if c.Mode == "int" || c.Mode == "ring" {
		return c.Mode
	}
	return "bv"
}

// modes returns the VC modes in which the function must be verified (its own mode first).
func (c *Contract) modes() []string {
	own := "bv"
	if c.Mode == "int" || c.Mode == "ring" {
		own = c.Mode
	}
	out := []string{own}
	other := map[string]bool{}
	for _, lst := range [][]*Clause{c.Requires, c.Ensures, c.PanicsIf} {
		for _, cl := range lst {
			if cl.Mode == "any" || cl.Mode == "ringax" {
				continue
			}
			if m := c.clauseMode(cl); m != own {
				other[m] = true
			}
		}
	}
	for m := range other {
		out = append(out, m)
	}
	return out
}

// LineAssert: `assert[label] "marker": E` — E is checked (then assumed) just before the first instruction at or
// after the first source line of the function that contains marker; with Cut, earlier path facts are dropped
// for the obligations that follow (`assert-cut`).
type LineAssert struct {
	Marker string
	Cl     *Clause
	Cut    bool
	target ssa.Instruction
	done   bool
}

type CutSpec struct {
	Name string
	K    int
}

type CallSite struct {
	Name string
	K    int
	Cl   *Clause
	hit  bool
}

type PureFn struct {
	Opaque bool
	Name   string
	Params []string
	PTypes []string
	Body   *SNode
	Pkg    *ssa.Package
	File   string
}

type Lemma struct {
	Name string
	Body *Clause
	Pkg  *ssa.Package
	Mode string
}

var loopCallsRe = regexp.MustCompile(`^\s*(\d+)\s*:\s*calls\s+([A-Za-z_][A-Za-z0-9_]*)#(\d+)\s*$`)

var clauseKW = map[string]bool{"func": true, "func+": true, "pure": true, "requires": true, "ensures": true, "assigns": true,
	"panics-if": true, "loop": true, "callsite": true, "assumed": true, "mode": true, "lemma": true, "noauto": true, "wraps": true, "nullable": true, "instantiate": true, "inst": true, "cut": true, "assert": true, "assert-cut": true, "uf": true, "axiom": true}

var labelRe = regexp.MustCompile(`^(requires|ensures|panics-if|callsite|pure|assert|assert-cut)\[([A-Za-z0-9_.:-]+)\]`)

type rawClause struct {
	kw, label, text string
	line            int
}

func readContractLines(path string) ([]rawClause, error) {
	f, err := os.Open(path)
	if err != nil {
		return nil, err
	}
	defer f.Close()
	var out []rawClause
	sc := bufio.NewScanner(f)
	sc.Buffer(make([]byte, 1<<20), 1<<20)
	ln := 0
	for sc.Scan() {
		ln++
		line := strings.TrimSpace(sc.Text())
		if !strings.HasPrefix(line, "//@") {
			continue
		}
		body := strings.TrimSpace(line[3:])
		if body == "" {
			continue
		}
		first := body
		if i := strings.IndexAny(body, " \t"); i >= 0 {
			first = body[:i]
		}
		label := ""
		if m := labelRe.FindStringSubmatch(body); m != nil {
			label = m[2]
			first = m[1]
			body = m[1] + " " + strings.TrimSpace(body[len(m[0]):])
		}
		if i := strings.Index(first, "["); i > 0 && label == "" && clauseKW[first[:i]] {
			return nil, fmt.Errorf("%s:%d: malformed clause label in %q (allowed: letters, digits, _ . : -)", path, ln, first)
		}
		kw := strings.TrimSuffix(first, ":")
		if clauseKW[kw] {
			rest := strings.TrimSpace(body[len(first):])
			out = append(out, rawClause{kw: kw, label: label, text: rest, line: ln})
		} else {
			if len(out) == 0 {
				return nil, fmt.Errorf("%s:%d: continuation without clause", path, ln)
			}
			out[len(out)-1].text += " " + body
		}
	}
	return out, sc.Err()
}

var pureRe = regexp.MustCompile(`^([A-Za-z_][A-Za-z0-9_]*)\s*\(([^)]*)\)\s*=\s*(.*)$`)
var callsiteRe = regexp.MustCompile(`^([A-Za-z_][A-Za-z0-9_.]*)#([0-9]+)\s*:\s*(.*)$`)
var unrollRe = regexp.MustCompile(`^([0-9]+)\s*:\s*unroll\s+([0-9]+)\s*$`)
var loopRe = regexp.MustCompile(`^([0-9]+)\s*:\s*invariant\s+(.*)$`)

// loadContracts parses one contract file. pkgPath=="" means fully qualified function names.
func (e *Engine) loadContractFile(path string, pkg *ssa.Package) error {
	raws, err := readContractLines(path)
	if err != nil {
		return err
	}
	var cur *Contract
	mk := func(rc rawClause) (*Clause, error) {
		n, err := parseSpec(rc.text)
		if err != nil {
			return nil, fmt.Errorf("%s:%d: %v", path, rc.line, err)
		}
		cl := &Clause{Src: rc.text, N: n, Label: rc.label, File: path, Line: rc.line}
		if strings.HasPrefix(cl.Label, "bv:") {
			cl.Mode, cl.Label = "bv", cl.Label[3:]
		} else if strings.HasPrefix(cl.Label, "int:") {
			cl.Mode, cl.Label = "int", cl.Label[4:]
		} else if strings.HasPrefix(cl.Label, "ringax:") {
			cl.Mode, cl.Label = "ringax", cl.Label[7:]
		} else if strings.HasPrefix(cl.Label, "ring:") {
			cl.Mode, cl.Label = "ring", cl.Label[5:]
		} else if strings.HasPrefix(cl.Label, "any:") {
			cl.Mode, cl.Label = "any", cl.Label[4:]
		} else if cl.Label == "bv" || cl.Label == "int" || cl.Label == "any" || cl.Label == "ring" || cl.Label == "ringax" {
			cl.Mode, cl.Label = cl.Label, ""
		}
		return cl, nil
	}
	for _, rc := range raws {
		switch rc.kw {
		case "func", "func+":
			// `func+ name` extends the contract of name (clauses from several files are merged); a plain
			// `func name` may appear once
			name := strings.TrimSpace(rc.text)
			key := name
			if pkg != nil {
				key = qualify(pkg.Pkg.Path(), name)
			}
			if old, dup := e.contracts[key]; dup {
				if rc.kw == "func" && !old.extOnly {
					return fmt.Errorf("%s:%d: duplicate contract for %s", path, rc.line, key)
				}
				if rc.kw == "func" {
					old.extOnly = false
					old.File, old.Line = path, rc.line
				}
				cur = old
				break
			}
			cur = &Contract{Key: key, File: path, Line: rc.line, Loops: map[int][]*Clause{}, extOnly: rc.kw == "func+"}
			e.contracts[key] = cur
		case "pure":
			m := pureRe.FindStringSubmatch(rc.text)
			if m == nil {
				return fmt.Errorf("%s:%d: bad pure definition", path, rc.line)
			}
			pf := &PureFn{Name: m[1], Pkg: pkg, File: path, Opaque: rc.label == "opaque"}
			for _, p := range strings.Split(m[2], ",") {
				p = strings.TrimSpace(p)
				if p == "" {
					continue
				}
				fs := strings.Fields(p)
				pf.Params = append(pf.Params, fs[0])
				if len(fs) > 1 {
					pf.PTypes = append(pf.PTypes, fs[1])
				} else {
					pf.PTypes = append(pf.PTypes, "")
				}
			}
			n, err := parseSpec(m[3])
			if err != nil {
				return fmt.Errorf("%s:%d: %v", path, rc.line, err)
			}
			pf.Body = n
			k := pf.Name
			if pkg != nil {
				k = pkg.Pkg.Path() + "." + pf.Name
			}
			e.pures[k] = pf
		case "lemma":
			i := strings.Index(rc.text, ":")
			if i < 0 {
				return fmt.Errorf("%s:%d: lemma needs a name", path, rc.line)
			}
			rc2 := rc
			rc2.text = strings.TrimSpace(rc.text[i+1:])
			cl, err := mk(rc2)
			if err != nil {
				return err
			}
			nm := strings.TrimSpace(rc.text[:i])
			mode := ""
			if strings.HasSuffix(nm, " int") {
				mode = "int"
				nm = strings.TrimSpace(strings.TrimSuffix(nm, " int"))
			}
			e.lemmas = append(e.lemmas, &Lemma{Name: nm, Body: cl, Pkg: pkg, Mode: mode})
		case "instantiate":
			// handled before loading (engine.instantiationOverlay)
		case "uf":
			if err := e.declareUF(rc.text); err != nil {
				return fmt.Errorf("%s:%d: %v", path, rc.line, err)
			}
		case "axiom":
			e.axioms = append(e.axioms, rc.text)
		default:
			if cur == nil {
				return fmt.Errorf("%s:%d: clause outside func block", path, rc.line)
			}
			switch rc.kw {
			case "requires", "ensures", "panics-if":
				cl, err := mk(rc)
				if err != nil {
					return err
				}
				switch rc.kw {
				case "requires":
					cur.Requires = append(cur.Requires, cl)
				case "ensures":
					cur.Ensures = append(cur.Ensures, cl)
				default:
					cur.PanicsIf = append(cur.PanicsIf, cl)
				}
			case "assigns":
				cur.HasAssigns = true
				t := strings.TrimSpace(rc.text)
				if t == "nothing" {
					break
				}
				if t == "any" {
					cur.AssignsAny = true
					break
				}
				for _, part := range splitTop(t) {
					rc2 := rc
					rc2.text = part
					cl, err := mk(rc2)
					if err != nil {
						return err
					}
					cur.Assigns = append(cur.Assigns, cl)
				}
			case "loop":
				if um := unrollRe.FindStringSubmatch(rc.text); um != nil {
					k, _ := strconv.Atoi(um[1])
					n, _ := strconv.Atoi(um[2])
					if cur.Unroll == nil {
						cur.Unroll = map[int]int{}
					}
					cur.Unroll[k] = n
					break
				}
				if cm := loopCallsRe.FindStringSubmatch(rc.text); cm != nil {
					// loop N: calls Name#K -- every iteration (every path back to the loop head) executes that call
					k, _ := strconv.Atoi(cm[1])
					ord, _ := strconv.Atoi(cm[3])
					if cur.LoopCalls == nil {
						cur.LoopCalls = map[int][]CutSpec{}
					}
					cur.LoopCalls[k] = append(cur.LoopCalls[k], CutSpec{cm[2], ord})
					break
				}
				m := loopRe.FindStringSubmatch(rc.text)
				if m == nil {
					return fmt.Errorf("%s:%d: bad loop clause (want 'loop N: invariant E')", path, rc.line)
				}
				k, _ := strconv.Atoi(m[1])
				rc2 := rc
				rc2.text = m[2]
				cl, err := mk(rc2)
				if err != nil {
					return err
				}
				cur.Loops[k] = append(cur.Loops[k], cl)
			case "callsite":
				m := callsiteRe.FindStringSubmatch(rc.text)
				if m == nil {
					return fmt.Errorf("%s:%d: bad callsite clause (want 'callsite Name#K: E')", path, rc.line)
				}
				k, _ := strconv.Atoi(m[2])
				rc2 := rc
				rc2.text = m[3]
				cl, err := mk(rc2)
				if err != nil {
					return err
				}
				cur.CallSites = append(cur.CallSites, &CallSite{Name: m[1], K: k, Cl: cl})
			case "assumed":
				cur.Assumed = true
				cur.AssumedWhy = rc.text
			case "mode":
				cur.Mode = strings.TrimSpace(rc.text)
			case "noauto":
				cur.NoAuto = true
			case "wraps":
				cur.Wraps = true
			case "assert", "assert-cut":
				m := regexp.MustCompile(`^"([^"]+)"\s*:\s*(.*)$`).FindStringSubmatch(rc.text)
				if m == nil {
					return fmt.Errorf("%s:%d: bad assert clause (want 'assert \"marker\": E')", path, rc.line)
				}
				rc2 := rc
				rc2.text = m[2]
				cl, err := mk(rc2)
				if err != nil {
					return err
				}
				cur.LineAsserts = append(cur.LineAsserts, &LineAssert{Marker: m[1], Cl: cl, Cut: rc.kw == "assert-cut"})
			case "inst":
				if strings.TrimSpace(rc.text) == "goal-only" {
					cur.InstGoalOnly = true
				}
			case "cut":
				m := regexp.MustCompile(`^([A-Za-z_][A-Za-z0-9_.]*)#([0-9]+)$`).FindStringSubmatch(strings.TrimSpace(rc.text))
				if m == nil {
					return fmt.Errorf("%s:%d: bad cut clause (want 'cut Name#K')", path, rc.line)
				}
				k, _ := strconv.Atoi(m[2])
				cur.Cuts = append(cur.Cuts, &CutSpec{m[1], k})
			case "nullable":
				if cur.Nullable == nil {
					cur.Nullable = map[string]bool{}
				}
				for _, n := range strings.FieldsFunc(rc.text, func(r rune) bool { return r == ',' || r == ' ' }) {
					cur.Nullable[n] = true
				}
			}
		}
	}
	return nil
}

// splitTop splits on commas not nested in parentheses/brackets.
func splitTop(s string) []string {
	var out []string
	depth := 0
	start := 0
	for i, r := range s {
		switch r {
		case '(', '[':
			depth++
		case ')', ']':
			depth--
		case ',':
			if depth == 0 {
				out = append(out, strings.TrimSpace(s[start:i]))
				start = i + 1
			}
		}
	}
	out = append(out, strings.TrimSpace(s[start:]))
	return out
}

// qualify turns a package-relative function name into ssa.Function.String() form.
func qualify(pkgPath, name string) string {
	if strings.HasPrefix(name, "(*") {
		return "(*" + pkgPath + "." + name[2:]
	}
	if strings.HasPrefix(name, "(") {
		return "(" + pkgPath + "." + name[1:]
	}
	return pkgPath + "." + name
}

func (e *Engine) loadRepoContracts() error {
	for _, sp := range e.prog.AllPackages() {
		if sp.Pkg == nil || !strings.HasPrefix(sp.Pkg.Path(), e.modPath) {
			continue
		}
		dir := e.pkgDir[sp.Pkg.Path()]
		if dir == "" {
			continue
		}
		ms, _ := filepath.Glob(filepath.Join(dir, "zz_contracts*_verif.go"))
		for _, p := range ms {
			if err := e.loadContractFile(p, sp); err != nil {
				return err
			}
		}
	}
	return nil
}

func (e *Engine) lookupPure(pkg *ssa.Package, name string) *PureFn {
	if pkg != nil {
		if pf, ok := e.pures[pkg.Pkg.Path()+"."+name]; ok {
			return pf
		}
	}
	if pf, ok := e.pures[name]; ok {
		return pf
	}
	return nil
}

func (e *Engine) loadExtraContracts(dir string) error {
	ms, _ := filepath.Glob(filepath.Join(dir, "*.contracts"))
	for _, p := range ms {
		if err := e.loadContractFile(p, nil); err != nil {
			return err
		}
	}
	return nil
}

func curModeName() string {
	if genRingMode {
		return "ring"
	}
	if genIntMode {
		return "int"
	}
	return "bv"
}

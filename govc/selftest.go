package main

// Thorough-tier self-test: the registered seeded changes of a property (/verif/seeded/<id>-<k>/patch.diff, each a
// change that breaks the property while compiling and passing the test suite) are applied, one at a time, to a
// scratch copy of the repository's current working tree outside /repo and /verif, and the property's own units
// that cover the touched packages are run on the copy through the normal `check` code path. The check must report
// a violation on the copy. A seed that is not detected is reported on stderr and recorded in evidence
// (coverage.selftest); it does not change the exit status, which speaks about the tree under check only.

import (
	"encoding/json"
	"fmt"
	"os"
	"os/exec"
	"path/filepath"
	"regexp"
	"sort"
	"strings"
	"time"
)

type selftestResult struct {
	Seed       string `json:"seed"`
	Applied    bool   `json:"applied"`
	Detected   bool   `json:"detected"`
	Obligation string `json:"first_violation,omitempty"`
	Note       string `json:"note,omitempty"`
	Seconds    int    `json:"seconds"`
}

func runSelftest(root, repo, prop string, units []PropUnit) []selftestResult {
	if os.Getenv("GOVC_SELFTEST") == "0" {
		return nil
	}
	dirs, _ := filepath.Glob(filepath.Join(root, "seeded", prop+"-*"))
	sort.Strings(dirs)
	var out []selftestResult
	self, err := os.Executable()
	if err != nil {
		return nil
	}
	plusRe := regexp.MustCompile(`(?m)^\+\+\+ b/(.*)$`)
	for _, d := range dirs {
		patch := filepath.Join(d, "patch.diff")
		pdata, err := os.ReadFile(patch)
		if err != nil {
			continue
		}
		res := selftestResult{Seed: filepath.Base(d)}
		touched := map[string]bool{}
		for _, m := range plusRe.FindAllStringSubmatch(string(pdata), -1) {
			touched[filepath.Dir(m[1])] = true
		}
		var sel []PropUnit
		for _, u := range units {
			hit := false
			for _, p := range u.Pkgs {
				p0 := strings.TrimSuffix(strings.TrimPrefix(p, "./"), "/...")
				for t := range touched {
					if t == p0 || (strings.HasSuffix(p, "...") && strings.HasPrefix(t, p0)) {
						hit = true
					}
				}
			}
			if hit {
				sel = append(sel, u)
			}
		}
		if len(sel) == 0 {
			res.Note = "no unit of this property covers the touched packages"
			out = append(out, res)
			continue
		}
		scratch, err := os.MkdirTemp("", "govc-selftest-")
		if err != nil {
			continue
		}
		func() {
			defer os.RemoveAll(scratch)
			t0 := nowSec()
			copyRepo := filepath.Join(scratch, "repo")
			if err := exec.Command("rsync", "-a", "--exclude", ".git", strings.TrimSuffix(repo, "/")+"/", copyRepo+"/").Run(); err != nil {
				res.Note = "copy failed: " + err.Error()
				return
			}
			ap := exec.Command("git", "apply", "--unsafe-paths", "--directory="+copyRepo, patch)
			ap.Dir = scratch
			if ob, err := ap.CombinedOutput(); err != nil {
				ap2 := exec.Command("patch", "-p1", "-s", "-i", patch)
				ap2.Dir = copyRepo
				if ob2, err2 := ap2.CombinedOutput(); err2 != nil {
					res.Note = "patch does not apply to the current tree: " + firstLine(string(ob)) + " / " + firstLine(string(ob2))
					return
				}
			}
			res.Applied = true
			troot := filepath.Join(scratch, "root")
			os.MkdirAll(filepath.Join(troot, "props"), 0o755)
			os.Symlink(filepath.Join(root, "contracts"), filepath.Join(troot, "contracts"))
			if kf, err := os.ReadFile(filepath.Join(root, "known_findings.jsonl")); err == nil {
				os.WriteFile(filepath.Join(troot, "known_findings.jsonl"), kf, 0o644)
			}
			spec, _ := json.Marshal(map[string]interface{}{"id": prop, "units": sel, "assumptions": []string{}, "residual": ""})
			os.WriteFile(filepath.Join(troot, "props", prop+".json"), spec, 0o644)
			cmd := exec.Command(self, "check", "-property", prop, "-root", troot, "-repo", copyRepo, "-tier", "quick")
			cmd.Env = append(os.Environ(), "GOVC_NOREPLAY=1", "GOVC_SELFTEST=0")
			ob, _ := cmd.CombinedOutput()
			for _, l := range strings.Split(string(ob), "\n") {
				if strings.HasPrefix(l, "VIOLATION") {
					res.Detected = true
					if m := regexp.MustCompile(`obligation=(\S+)`).FindStringSubmatch(l); m != nil {
						res.Obligation = m[1]
					} else {
						res.Obligation = firstLine(l)
					}
					break
				}
			}
			res.Seconds = nowSec() - t0
		}()
		if res.Applied && !res.Detected {
			fmt.Fprintf(os.Stderr, "SELFTEST-MISS property=%s seed=%s: the seeded change is not detected by this property's check\n", prop, res.Seed)
		}
		out = append(out, res)
	}
	return out
}

func firstLine(s string) string {
	s = strings.TrimSpace(s)
	if i := strings.Index(s, "\n"); i >= 0 {
		s = s[:i]
	}
	if len(s) > 200 {
		s = s[:200]
	}
	return s
}

func nowSec() int { return int(time.Now().Unix()) }

package main

func cmdCheck(args []string) int  { return 2 }
func cmdReplay(args []string) int { return 2 }

func (e *Engine) loadAllContracts(extraDir string) error {
	if err := e.loadRepoContracts(); err != nil {
		return err
	}
	return e.loadExtraContracts(extraDir)
}

package main

import (
	"fmt"
	"go/types"
	"math/big"
	"strings"
)

type Kind int

const (
	KBV Kind = iota
	KBool
	KInt // mathematical integer (spec only)
	KPtr
	KSlice
	KString
	KIface
	KAgg // struct / array value: snapshot heap + (r,o)
	KFunc
	KMap
	KChan
	KFloat
	KTuple
	KConst // untyped integer constant (spec only)
	KUnit
	KSeq // spec only: mathematical byte sequence (Seq) -- (Array Int (_ BitVec 8)) + length
)

func (k Kind) String() string {
	return [...]string{"bv", "bool", "int", "ptr", "slice", "string", "iface", "agg", "func", "map", "chan", "float", "tuple", "const", "unit", "seq"}[k]
}

type Val struct {
	K      Kind
	W      int
	Signed bool
	C      []string // SMT components
	T      types.Type
	Elems  []*Val
	H      *Heap // KAgg: snapshot
	N      *big.Int
	// integer-mode idiom tracking
	Bit      string // value is this {0,1}-valued term
	MaskOf   string // value is b*(2^W-1) for this {0,1}-valued term b
	LowZeros int    // value is a multiple of 2^LowZeros
	NegOrOf  string // value is q | -q for this term q
	NegOf    string // value is -q (wrapped) for this term q
}

func (v *Val) String() string {
	if v == nil {
		return "<nil>"
	}
	return fmt.Sprintf("%s%v", v.K, v.C)
}

type comp struct {
	name string
	sort string
}

func compsOf(k Kind, w int) []comp {
	switch k {
	case KBV:
		return []comp{{fmt.Sprintf("bv%d", w), bvSort(w)}}
	case KFloat:
		return []comp{{fmt.Sprintf("fl%d", w), bvSort(w)}}
	case KBool:
		return []comp{{"bool", "Bool"}}
	case KPtr:
		return []comp{{"p.r", refSort}, {"p.o", offSort}}
	case KSlice:
		return []comp{{"s.r", refSort}, {"s.o", offSort}, {"s.l", offSort}, {"s.c", offSort}}
	case KString:
		return []comp{{"t.r", refSort}, {"t.o", offSort}, {"t.l", offSort}}
	case KIface:
		return []comp{{"i.t", "Int"}, {"i.r", refSort}, {"i.o", offSort}}
	case KFunc:
		return []comp{{"f", "Int"}}
	case KMap:
		return []comp{{"m", "Int"}}
	case KChan:
		return []comp{{"c", "Int"}}
	}
	return nil
}

var compSorts = map[string]string{}

func init() {
	for _, k := range []Kind{KBool, KPtr, KSlice, KString, KIface, KFunc, KMap, KChan} {
		for _, c := range compsOf(k, 0) {
			compSorts[c.name] = c.sort
		}
	}
	compSorts["fe"] = "Int" // ghost: abstract ring value of a field element, stored at the element's first cell
	for _, w := range []int{8, 16, 32, 64, 128} {
		compSorts[fmt.Sprintf("bv%d", w)] = bvSort(w)
		compSorts[fmt.Sprintf("fl%d", w)] = bvSort(w)
	}
}

// genIntMode: set (under genMu) while generating a VC in integer mode: integer cells hold SMT Ints.
var genIntMode bool

// genRingMode: ring mode (an integer mode in which field elements are abstract ring values, see ringmode.go).
var genRingMode bool

func compSort(comp string) string {
	if genIntMode && strings.HasPrefix(comp, "bv") {
		return "Int"
	}
	return compSorts[comp]
}

func heapSort(comp string) string {
	return "(Array Int (Array (_ BitVec 64) " + compSort(comp) + "))"
}
func innerSort(comp string) string {
	return "(Array (_ BitVec 64) " + compSort(comp) + ")"
}

// scalarKind classifies a non-aggregate Go type.
func scalarKind(t types.Type) (Kind, int, bool) {
	switch u := t.Underlying().(type) {
	case *types.Basic:
		info := u.Info()
		switch {
		case info&types.IsBoolean != 0:
			return KBool, 0, false
		case info&types.IsInteger != 0:
			w := 64
			switch u.Kind() {
			case types.Int8, types.Uint8:
				w = 8
			case types.Int16, types.Uint16:
				w = 16
			case types.Int32, types.Uint32:
				w = 32
			}
			return KBV, w, info&types.IsUnsigned == 0
		case info&types.IsFloat != 0:
			if u.Kind() == types.Float32 {
				return KFloat, 32, false
			}
			return KFloat, 64, false
		case info&types.IsComplex != 0:
			return KFloat, 128, false
		case info&types.IsString != 0:
			return KString, 0, false
		case u.Kind() == types.UnsafePointer:
			return KPtr, 0, false
		case u.Kind() == types.UntypedNil:
			return KPtr, 0, false
		}
	case *types.Pointer:
		return KPtr, 0, false
	case *types.Slice:
		return KSlice, 0, false
	case *types.Interface:
		return KIface, 0, false
	case *types.Signature:
		return KFunc, 0, false
	case *types.Map:
		return KMap, 0, false
	case *types.Chan:
		return KChan, 0, false
	case *types.Struct, *types.Array:
		return KAgg, 0, false
	case *types.Tuple:
		return KTuple, 0, false
	}
	panic(fmt.Sprintf("scalarKind: unsupported type %s (%T)", t, t.Underlying()))
}

type Layout struct {
	N      int64
	Kind   Kind // scalar kind or KAgg
	W      int
	Signed bool
	Fields []int64   // struct: cell offset per field
	FL     []*Layout // struct: per field layout
	Elem   *Layout   // array
	Len    int64
	comps  map[string]bool
}

var layoutCache = map[types.Type]*Layout{}

func layoutOf(t types.Type) *Layout {
	if l, ok := layoutCache[t]; ok {
		return l
	}
	var l *Layout
	switch u := t.Underlying().(type) {
	case *types.Struct:
		l = &Layout{Kind: KAgg}
		off := int64(0)
		for i := 0; i < u.NumFields(); i++ {
			fl := layoutOf(u.Field(i).Type())
			l.Fields = append(l.Fields, off)
			l.FL = append(l.FL, fl)
			off += fl.N
		}
		l.N = off
	case *types.Array:
		el := layoutOf(u.Elem())
		l = &Layout{Kind: KAgg, Elem: el, Len: u.Len(), N: el.N * u.Len()}
	default:
		k, w, s := scalarKind(t)
		l = &Layout{Kind: k, W: w, Signed: s, N: 1}
	}
	layoutCache[t] = l
	return l
}

// comps used by a layout
func (l *Layout) Comps() map[string]bool {
	if l.comps != nil {
		return l.comps
	}
	m := map[string]bool{}
	switch {
	case l.Elem != nil:
		for c := range l.Elem.Comps() {
			m[c] = true
		}
	case l.Kind == KAgg:
		for _, f := range l.FL {
			for c := range f.Comps() {
				m[c] = true
			}
		}
	default:
		for _, c := range compsOf(l.Kind, l.W) {
			m[c.name] = true
		}
	}
	l.comps = m
	return m
}

// Heap is a version map comp -> SMT constant of sort heapSort(comp).
type Heap struct {
	m     map[string]string
	alloc string // allocation counter (Int term)
}

func (h *Heap) clone() *Heap {
	n := &Heap{m: make(map[string]string, len(h.m)), alloc: h.alloc}
	for k, v := range h.m {
		n.m[k] = v
	}
	return n
}

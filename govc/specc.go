package main

import (
	"fmt"
	"go/constant"
	"go/token"
	"go/types"
	"math/big"
	"regexp"
	"strconv"
	"strings"

	"golang.org/x/tools/go/ssa"
)

type Env struct {
	vc    *VC
	vars  map[string]*Val
	heap  *Heap
	old   *Heap
	local func(name string) *Val
	pkg   *ssa.Package // package whose scope resolves constants/globals
	depth int
	// localFirst: names of locals (loop-head values) shadow parameters of the same name (loop invariants)
	localFirst bool
	bound      map[string]bool  // quantifier-bound names (never resolved as locals)
	headHeap   *Heap            // heap at the head of the innermost enclosing loop (current iteration)
	marks      map[string]*Heap // heap at earlier assert markers
}

func (env *Env) with(name string, v *Val) *Env {
	n := *env
	n.vars = map[string]*Val{}
	for k, x := range env.vars {
		n.vars[k] = x
	}
	n.vars[name] = v
	n.bound = map[string]bool{}
	for k := range env.bound {
		n.bound[k] = true
	}
	n.bound[name] = true
	return &n
}

type specFail string

func sfail(f string, a ...interface{}) { panic(specFail(fmt.Sprintf(f, a...))) }

var convRe = regexp.MustCompile(`^[su]([0-9]+)$`)

func (vc *VC) compileBool(env *Env, n *SNode) string {
	v := vc.compile(env, n)
	if v.K != KBool {
		sfail("expected boolean, got %s in %s", v.K, n)
	}
	return v.C[0]
}

func goIntType(name string) (int, bool, bool) {
	switch name {
	case "int", "int64":
		return 64, true, true
	case "uint", "uint64", "uintptr":
		return 64, false, true
	case "int32", "rune":
		return 32, true, true
	case "uint32":
		return 32, false, true
	case "int16":
		return 16, true, true
	case "uint16":
		return 16, false, true
	case "int8":
		return 8, true, true
	case "uint8", "byte":
		return 8, false, true
	}
	return 0, false, false
}

func (vc *VC) constTo(c *Val, w int, signed bool) *Val {
	if vc.intMode {
		return vc.bv(intLit(c.N), w, signed, nil)
	}
	return vc.bv(bvLit(w, c.N), w, signed, nil)
}

func kconst(n *big.Int) *Val { return &Val{K: KConst, N: n} }

func (vc *VC) compile(env *Env, n *SNode) *Val {
	switch n.Op {
	case "lit":
		txt := n.Tok
		if strings.HasPrefix(txt, "'") {
			r, _, _, err := strconv.UnquoteChar(txt[1:len(txt)-1], '\'')
			if err != nil {
				sfail("bad char literal %s", txt)
			}
			return kconst(big.NewInt(int64(r)))
		}
		v, ok := new(big.Int).SetString(strings.ReplaceAll(txt, "_", ""), 0)
		if !ok {
			sfail("bad literal %s", txt)
		}
		return kconst(v)
	case "str":
		s, err := strconv.Unquote(n.Tok)
		if err != nil {
			sfail("bad string literal %s", n.Tok)
		}
		return vc.strLit(s)
	case "id":
		return vc.resolve(env, n.Tok)
	case "un":
		if n.Tok == "&" {
			return vc.compileAddr(env, n.Args[0])
		}
		if n.Tok == "*" {
			p := vc.compile(env, n.Args[0])
			if p.K != KPtr || p.T == nil {
				sfail("deref of non-pointer %s", n.Args[0])
			}
			et := p.T.Underlying().(*types.Pointer).Elem()
			return vc.load(env.heap, layoutOf(et), et, p.C[0], p.C[1])
		}
		x := vc.compile(env, n.Args[0])
		switch n.Tok {
		case "-":
			if x.K == KConst {
				return kconst(new(big.Int).Neg(x.N))
			}
			if x.K == KInt {
				return &Val{K: KInt, C: []string{app("-", x.C[0])}}
			}
			return vc.unop(token.SUB, x, x.T)
		case "+":
			return x
		case "!":
			if x.K != KBool {
				sfail("! on non-bool")
			}
			return vc.boolVal(sNot(x.C[0]))
		case "^":
			if x.K == KConst {
				return kconst(new(big.Int).Not(x.N))
			}
			return vc.unop(token.XOR, x, x.T)
		}
	case "bin":
		return vc.compileBin(env, n)
	case "sel":
		return vc.compileSel(env, n)
	case "index":
		x := vc.compile(env, n.Args[0])
		i := vc.compile(env, n.Args[1])
		return vc.specIndex(env, x, i, n)
	case "slice":
		return vc.compileSliceExpr(env, n)
	case "call":
		return vc.compileCall(env, n)
	case "forall", "exists":
		var binders []string
		e2 := env
		var ranges []string
		for i, v := range n.Vars {
			vc.nfresh++
			nm := fmt.Sprintf("%s!%d", v, vc.nfresh)
			typ := n.VTyps[i]
			if typ == "Int" || vc.intMode {
				binders = append(binders, fmt.Sprintf("(%s Int)", nm))
				if w, s, ok := goIntType(typ); ok && vc.intMode {
					ranges = append(ranges, vc.intRange(nm, w, s))
					e2 = e2.with(v, vc.bv(nm, w, s, nil))
				} else {
					e2 = e2.with(v, &Val{K: KInt, C: []string{nm}})
				}
				continue
			}
			w, s, ok := goIntType(typ)
			if !ok {
				sfail("unknown binder type %s", typ)
			}
			binders = append(binders, fmt.Sprintf("(%s %s)", nm, bvSort(w)))
			e2 = e2.with(v, vc.bv(nm, w, s, nil))
		}
		body := vc.compileBool(e2, n.Args[0])
		if len(ranges) > 0 {
			if n.Op == "forall" {
				body = sImp(sAnd(ranges...), body)
			} else {
				body = sAnd(append(ranges, body)...)
			}
		}
		return vc.boolVal(fmt.Sprintf("(%s (%s) %s)", n.Op, strings.Join(binders, " "), body))
	}
	sfail("cannot compile %s", n)
	return nil
}

// compileAddr: address of an lvalue expression x[i], p.f, *p (chains allowed); yields a typed pointer.
func (vc *VC) compileAddr(env *Env, n *SNode) *Val {
	switch n.Op {
	case "index":
		x := vc.compile(env, n.Args[0])
		ix := vc.specIdx(vc.compile(env, n.Args[1]))
		switch x.K {
		case KSlice:
			et := x.T.Underlying().(*types.Slice).Elem()
			return &Val{K: KPtr, T: types.NewPointer(et), C: []string{x.C[0], bvBin("bvadd", x.C[1], mulOff(ix, layoutOf(et).N))}}
		case KPtr:
			if pt, ok := x.T.Underlying().(*types.Pointer); ok {
				if at, ok := pt.Elem().Underlying().(*types.Array); ok {
					return &Val{K: KPtr, T: types.NewPointer(at.Elem()), C: []string{x.C[0], bvBin("bvadd", x.C[1], mulOff(ix, layoutOf(at.Elem()).N))}}
				}
			}
		case KAgg:
			if at, ok := x.T.Underlying().(*types.Array); ok {
				return &Val{K: KPtr, T: types.NewPointer(at.Elem()), C: []string{x.C[0], bvBin("bvadd", x.C[1], mulOff(ix, layoutOf(at.Elem()).N))}}
			}
		}
	case "sel":
		x := vc.compile(env, n.Args[0])
		if x.K == KPtr {
			x = &Val{K: KAgg, T: x.T.Underlying().(*types.Pointer).Elem(), C: x.C, H: env.heap}
		}
		if x.K == KAgg {
			if st, ok := x.T.Underlying().(*types.Struct); ok {
				for i := 0; i < st.NumFields(); i++ {
					if st.Field(i).Name() == n.Tok {
						return &Val{K: KPtr, T: types.NewPointer(st.Field(i).Type()), C: []string{x.C[0], bvBin("bvadd", x.C[1], off64(layoutOf(x.T).Fields[i]))}}
					}
				}
			}
		}
	case "un":
		if n.Tok == "*" {
			return vc.compile(env, n.Args[0])
		}
	case "id":
		v := vc.resolve(env, n.Tok)
		if v.K == KAgg {
			return &Val{K: KPtr, T: types.NewPointer(v.T), C: []string{v.C[0], v.C[1]}}
		}
	}
	sfail("cannot take the address of %s", n)
	return nil
}

func (vc *VC) resolve(env *Env, name string) *Val {
	if env.localFirst && env.local != nil {
		if _, bound := env.bound[name]; !bound {
			if v := env.local(name); v != nil {
				return v
			}
		}
	}
	if v, ok := env.vars[name]; ok {
		return v
	}
	switch name {
	case "true":
		return vc.boolVal("true")
	case "false":
		return vc.boolVal("false")
	case "nil":
		return &Val{K: KPtr, C: []string{"0", off64(0)}}
	}
	if env.local != nil {
		if v := env.local(name); v != nil {
			return v
		}
	}
	if env.pkg != nil {
		if obj := env.pkg.Pkg.Scope().Lookup(name); obj != nil {
			return vc.objVal(env, obj)
		}
	}
	sfail("unresolved identifier %q", name)
	return nil
}

func (vc *VC) objVal(env *Env, obj types.Object) *Val {
	switch o := obj.(type) {
	case *types.Const:
		if o.Val().Kind() == constant.Int {
			n, _ := new(big.Int).SetString(o.Val().ExactString(), 10)
			if b, ok := o.Type().Underlying().(*types.Basic); ok && b.Info()&types.IsUntyped == 0 {
				return vc.intConst(o.Type(), n)
			}
			return kconst(n)
		}
		if o.Val().Kind() == constant.Bool {
			if constant.BoolVal(o.Val()) {
				return vc.boolVal("true")
			}
			return vc.boolVal("false")
		}
		if o.Val().Kind() == constant.String {
			return vc.strLit(constant.StringVal(o.Val()))
		}
	case *types.Var:
		sp := vc.e.prog.Package(o.Pkg())
		if sp != nil {
			if g, ok := sp.Members[o.Name()].(*ssa.Global); ok {
				r := vc.globalRef(g)
				return vc.load(env.heap, layoutOf(o.Type()), o.Type(), r, off64(0))
			}
		}
	}
	sfail("cannot use object %s in spec", obj)
	return nil
}

func (vc *VC) toInt(v *Val) string {
	switch v.K {
	case KInt:
		return v.C[0]
	case KConst:
		return intLit(v.N)
	case KBV:
		if vc.intMode {
			return v.C[0]
		}
		if v.Signed {
			// signed bv -> int
			return fmt.Sprintf("(ite (bvslt %s %s) (- (bv2nat %s) %s) (bv2nat %s))", v.C[0], bvLitI(v.W, 0), v.C[0], new(big.Int).Lsh(big.NewInt(1), uint(v.W)).String(), v.C[0])
		}
		return app("bv2nat", v.C[0])
	}
	sfail("cannot convert %s to Int", v.K)
	return ""
}

func (vc *VC) compileBin(env *Env, n *SNode) *Val {
	op := n.Tok
	if op == "==>" || op == "<==>" || op == "&&" || op == "||" {
		a := vc.compileBool(env, n.Args[0])
		b := vc.compileBool(env, n.Args[1])
		switch op {
		case "==>":
			return vc.boolVal(sImp(a, b))
		case "<==>":
			return vc.boolVal(sEq(a, b))
		case "&&":
			return vc.boolVal(sAnd(a, b))
		default:
			return vc.boolVal(sOr(a, b))
		}
	}
	a := vc.compile(env, n.Args[0])
	b := vc.compile(env, n.Args[1])
	tok := map[string]token.Token{"+": token.ADD, "-": token.SUB, "*": token.MUL, "/": token.QUO, "%": token.REM,
		"&": token.AND, "|": token.OR, "^": token.XOR, "&^": token.AND_NOT, "<<": token.SHL, ">>": token.SHR,
		"==": token.EQL, "!=": token.NEQ, "<": token.LSS, "<=": token.LEQ, ">": token.GTR, ">=": token.GEQ}[op]
	// constants
	if a.K == KConst && b.K == KConst {
		return vc.constBin(op, a.N, b.N)
	}
	// mathematical Int (in integer mode all spec arithmetic on Go integers is mathematical; use explicit
	// conversions such as uint64(e) to wrap)
	if vc.intMode && (a.K == KBV || b.K == KBV) {
		switch op {
		case "+", "-", "*", "/", "%", "==", "!=", "<", "<=", ">", ">=":
			if a.K == KBV {
				a = &Val{K: KInt, C: []string{a.C[0]}}
			}
			if b.K == KBV {
				b = &Val{K: KInt, C: []string{b.C[0]}}
			}
		}
	}
	if a.K == KInt || b.K == KInt {
		x, y := vc.toInt(a), vc.toInt(b)
		switch op {
		case "*":
			if vc.intMode && !vc.ringMode {
				return &Val{K: KInt, C: []string{vc.prodTerm(x, y)}}
			}
			return &Val{K: KInt, C: []string{app(op, x, y)}}
		case "+", "-":
			return &Val{K: KInt, C: []string{app(op, x, y)}}
		case "/":
			return &Val{K: KInt, C: []string{app("div", x, y)}}
		case "%":
			return &Val{K: KInt, C: []string{app("mod", x, y)}}
		case "==":
			return vc.boolVal(sEq(x, y))
		case "!=":
			return vc.boolVal(sNot(sEq(x, y)))
		case "<", "<=", ">", ">=":
			return vc.boolVal(app(op, x, y))
		}
		sfail("operator %s not supported on Int", op)
	}
	if op == "<<" || op == ">>" {
		if a.K == KConst {
			sfail("shift of untyped constant: convert it first")
		}
		if b.K == KConst {
			b = vc.constTo(b, 64, false)
		}
		return vc.binop(tok, a, b, a.T)
	}
	if a.K == KConst && b.K == KBV {
		a = vc.constTo(a, b.W, b.Signed)
	}
	if b.K == KConst && a.K == KBV {
		b = vc.constTo(b, a.W, a.Signed)
	}
	if a.K == KBV && b.K == KBV && (a.W != b.W || a.Signed != b.Signed) {
		sfail("operand type mismatch in %s: %d-bit signed=%v vs %d-bit signed=%v (use explicit conversions)", n, a.W, a.Signed, b.W, b.Signed)
	}
	if a.K == KSeq || b.K == KSeq {
		return vc.seqBin(env, op, a, b)
	}
	defer func() {
		if r := recover(); r != nil {
			if _, ok := r.(specFail); ok {
				panic(r)
			}
			sfail("in %s: %v", n, r)
		}
	}()
	return vc.binop(tok, a, b, a.T)
}

func (vc *VC) constBin(op string, a, b *big.Int) *Val {
	r := new(big.Int)
	switch op {
	case "+":
		return kconst(r.Add(a, b))
	case "-":
		return kconst(r.Sub(a, b))
	case "*":
		return kconst(r.Mul(a, b))
	case "/":
		return kconst(r.Quo(a, b))
	case "%":
		return kconst(r.Rem(a, b))
	case "<<":
		return kconst(r.Lsh(a, uint(b.Int64())))
	case ">>":
		return kconst(r.Rsh(a, uint(b.Int64())))
	case "&":
		return kconst(r.And(a, b))
	case "|":
		return kconst(r.Or(a, b))
	case "^":
		return kconst(r.Xor(a, b))
	}
	c := a.Cmp(b)
	var res bool
	switch op {
	case "==":
		res = c == 0
	case "!=":
		res = c != 0
	case "<":
		res = c < 0
	case "<=":
		res = c <= 0
	case ">":
		res = c > 0
	case ">=":
		res = c >= 0
	default:
		sfail("constant operator %s", op)
	}
	if res {
		return vc.boolVal("true")
	}
	return vc.boolVal("false")
}

func (vc *VC) specIdx(i *Val) string {
	switch i.K {
	case KConst:
		return bvLit(64, i.N)
	case KBV:
		if vc.intMode {
			if n, ok := intLitBig(i.C[0]); ok {
				return bvLit(64, n)
			}
			return app("(_ int2bv 64)", i.C[0])
		}
		return bvConv(i.C[0], i.W, i.Signed, 64)
	case KInt:
		if n, ok := intLitBig(i.C[0]); ok {
			return bvLit(64, n)
		}
		return app("(_ int2bv 64)", i.C[0])
	}
	sfail("index must be an integer")
	return ""
}

func (vc *VC) specIndex(env *Env, x, i *Val, n *SNode) *Val {
	if x.K == KSeq {
		return vc.bv(sel(x.C[0], vc.toInt(i)), 8, false, types.Typ[types.Uint8])
	}
	ix := vc.specIdx(i)
	switch x.K {
	case KSlice:
		et := x.T.Underlying().(*types.Slice).Elem()
		l := layoutOf(et)
		r := vc.load(env.heap, l, et, x.C[0], bvBin("bvadd", x.C[1], mulOff(ix, l.N)))
		vc.specLoadedWF(r, env.heap)
		return r
	case KString:
		return vc.load(env.heap, layoutOf(types.Typ[types.Uint8]), types.Typ[types.Uint8], x.C[0], bvBin("bvadd", x.C[1], ix))
	case KAgg:
		at, ok := x.T.Underlying().(*types.Array)
		if !ok {
			sfail("index of non-array %s", n)
		}
		l := layoutOf(at.Elem())
		r := vc.load(x.H, l, at.Elem(), x.C[0], bvBin("bvadd", x.C[1], mulOff(ix, l.N)))
		vc.specLoadedWF(r, x.H)
		return r
	case KPtr:
		if x.T != nil {
			if pt, ok := x.T.Underlying().(*types.Pointer); ok {
				if at, ok := pt.Elem().Underlying().(*types.Array); ok {
					l := layoutOf(at.Elem())
					r := vc.load(env.heap, l, at.Elem(), x.C[0], bvBin("bvadd", x.C[1], mulOff(ix, l.N)))
					vc.specLoadedWF(r, env.heap)
					return r
				}
			}
		}
	}
	sfail("cannot index %s (%s)", n.Args[0], x.K)
	return nil
}

func (vc *VC) compileSliceExpr(env *Env, n *SNode) *Val {
	x := vc.compile(env, n.Args[0])
	var r, o, ln, cp string
	var et types.Type
	switch x.K {
	case KSlice:
		r, o, ln, cp = x.C[0], x.C[1], x.C[2], x.C[3]
		et = x.T.Underlying().(*types.Slice).Elem()
	case KPtr:
		at := x.T.Underlying().(*types.Pointer).Elem().Underlying().(*types.Array)
		r, o, ln, cp = x.C[0], x.C[1], off64(at.Len()), off64(at.Len())
		et = at.Elem()
	case KAgg:
		sfail("slicing array values in specs is not supported; slice a pointer")
	default:
		sfail("cannot slice %s", x.K)
	}
	lo := off64(0)
	if n.Args[1] != nil {
		lo = vc.specIdx(vc.compile(env, n.Args[1]))
	}
	hi := ln
	if n.Args[2] != nil {
		hi = vc.specIdx(vc.compile(env, n.Args[2]))
	}
	st := layoutOf(et).N
	return &Val{K: KSlice, T: types.NewSlice(et), C: []string{r, bvBin("bvadd", o, mulOff(lo, st)), bvBin("bvsub", hi, lo), bvBin("bvsub", cp, lo)}}
}

func (vc *VC) compileSel(env *Env, n *SNode) *Val {
	// package-qualified name?
	if id := n.Args[0]; id.Op == "id" {
		if _, isVar := env.vars[id.Tok]; !isVar {
			if p := vc.e.pkgByName(env.pkg, id.Tok); p != nil {
				if obj := p.Pkg.Scope().Lookup(n.Tok); obj != nil {
					return vc.objVal(env, obj)
				}
				sfail("no %s in package %s", n.Tok, id.Tok)
			}
		}
	}
	x := vc.compile(env, n.Args[0])
	return vc.selectField(env, x, n.Tok)
}

func (vc *VC) selectField(env *Env, x *Val, name string) *Val {
	if x.T == nil {
		sfail("field %s of untyped value", name)
	}
	obj, path, _ := types.LookupFieldOrMethod(x.T, true, nil, name)
	if obj == nil && env.pkg != nil {
		obj, path, _ = types.LookupFieldOrMethod(x.T, true, env.pkg.Pkg, name)
	}
	if obj == nil {
		// try all packages (unexported fields of other packages)
		if nt := namedOf(x.T); nt != nil && nt.Obj().Pkg() != nil {
			obj, path, _ = types.LookupFieldOrMethod(x.T, true, nt.Obj().Pkg(), name)
		}
	}
	if obj == nil {
		// a defined type over a struct of another package (type PublicKey internal.PublicKey): direct fields by name
		t := x.T
		if pt, ok := t.Underlying().(*types.Pointer); ok {
			t = pt.Elem()
		}
		if st, ok := t.Underlying().(*types.Struct); ok {
			for i := 0; i < st.NumFields(); i++ {
				if st.Field(i).Name() == name {
					obj, path = st.Field(i), []int{i}
				}
			}
		}
	}
	if _, ok := obj.(*types.Var); !ok {
		sfail("no field %s in %s", name, x.T)
	}
	cur := x
	for _, fi := range path {
		// auto-deref
		if cur.K == KPtr {
			st := cur.T.Underlying().(*types.Pointer).Elem()
			cur = &Val{K: KAgg, T: st, C: []string{cur.C[0], cur.C[1]}, H: env.heap}
		}
		if cur.K != KAgg {
			sfail("field selection on %s", cur.K)
		}
		st := cur.T.Underlying().(*types.Struct)
		l := layoutOf(cur.T)
		hh := cur.H
		cur = vc.load(hh, l.FL[fi], st.Field(fi).Type(), cur.C[0], bvBin("bvadd", cur.C[1], off64(l.Fields[fi])))
		vc.specLoadedWF(cur, hh)
	}
	return cur
}

// specLoadedWF: heap invariant for reference-like values read in a spec expression (every reference
// stored in a heap is below that heap's allocation counter). Only for closed terms.
func (vc *VC) specLoadedWF(v *Val, h *Heap) {
	if vc.intMode && v.K == KBV && len(v.C) == 1 && !strings.Contains(v.C[0], "!") {
		// integer cells hold values of their Go type
		key := "rng:" + v.C[0]
		if !vc.trusted[key] {
			vc.trusted[key] = true
			vc.assume(vc.intRange(v.C[0], v.W, v.Signed))
		}
		return
	}
	switch v.K {
	case KPtr, KSlice, KString, KIface:
		for _, c := range v.C {
			if strings.Contains(c, "!") {
				return
			}
		}
		vc.assume(vc.wfTerm(v, h))
	}
}

func namedOf(t types.Type) *types.Named {
	for {
		switch u := t.(type) {
		case *types.Named:
			return u
		case *types.Pointer:
			t = u.Elem()
		default:
			return nil
		}
	}
}

func (vc *VC) specLen(x *Val) *Val {
	mk := func(t string) *Val {
		if vc.intMode {
			return vc.bv(app("bv2nat", t), 64, true, types.Typ[types.Int])
		}
		return vc.bv(t, 64, true, types.Typ[types.Int])
	}
	switch x.K {
	case KSlice, KString:
		return mk(x.C[2])
	case KAgg:
		if at, ok := x.T.Underlying().(*types.Array); ok {
			return kconst(big.NewInt(at.Len()))
		}
	case KPtr:
		if pt, ok := x.T.Underlying().(*types.Pointer); ok {
			if at, ok := pt.Elem().Underlying().(*types.Array); ok {
				return kconst(big.NewInt(at.Len()))
			}
		}
	case KSeq:
		return &Val{K: KInt, C: []string{x.C[1]}}
	}
	sfail("len of %s", x.K)
	return nil
}

func (vc *VC) compileCall(env *Env, n *SNode) *Val {
	f := n.Args[0]
	args := n.Args[1:]
	if f.Op == "sel" && f.Args[0].Op == "id" {
		// pkg.pure(...): a pure function of an imported (or any uniquely named) package of the module
		if p := vc.e.pkgByName(env.pkg, f.Args[0].Tok); p != nil {
			if pf := vc.e.lookupPure(p, f.Tok); pf != nil {
				e2 := *env
				e2.pkg = p
				call := &SNode{Op: "call", Args: append([]*SNode{{Op: "id", Tok: f.Tok}}, args...)}
				// arguments are evaluated in the caller's environment: pre-compile them
				return vc.callPure(env, pf, args, f.Tok)
				_ = call
			}
		}
		sfail("unknown function %s in spec", f)
	}
	if f.Op != "id" {
		sfail("unsupported call target %s", f)
	}
	name := f.Tok
	need := func(k int) {
		if len(args) != k {
			sfail("%s expects %d arguments", name, k)
		}
	}
	switch name {
	case "old":
		need(1)
		e2 := *env
		e2.heap = env.old
		e2.localFirst = false // old(x): parameters denote their entry values
		return vc.compile(&e2, args[0])
	case "fe":
		// fe(p): the abstract ring value of the field element p points to (ring mode only)
		need(1)
		if !vc.ringMode {
			sfail("fe(...) is only available in ring mode")
		}
		pv := vc.compile(env, args[0])
		if pv.K == KAgg {
			return &Val{K: KInt, C: []string{sel(sel(pv.H.m["fe"], pv.C[0]), pv.C[1])}}
		}
		if pv.K != KPtr {
			sfail("fe: argument must be a pointer to a field element")
		}
		return &Val{K: KInt, C: []string{sel(sel(env.heap.m["fe"], pv.C[0]), pv.C[1])}}
	case "called":
		// called("Name", K): the K-th call (source order) to Name has been executed on the current path. In an
		// ensures clause: every path reaching this return went through that call (e.g. the ladder is always run).
		if len(args) != 2 || args[0].Op != "str" {
			sfail("called: expected called(\"Name\", K)")
		}
		nm, _ := strconv.Unquote(args[0].Tok)
		kv := vc.compile(env, args[1])
		if kv.K != KConst {
			sfail("called: the call ordinal must be a constant")
		}
		var call *ssa.Call
		for _, b := range vc.fn.Blocks {
			for _, ins := range b.Instrs {
				if c, ok := ins.(*ssa.Call); ok && callName(c.Common()) == nm && int64(vc.callOrdinal(c)) == kv.N.Int64() {
					call = c
				}
			}
		}
		if call == nil {
			sfail("called: no call %s#%s in %s", nm, kv.N.String(), vc.fn.Name())
		}
		pc, ok := vc.callPC[call]
		if !ok {
			return vc.boolVal("false") // not executed before this point on any path
		}
		return vc.boolVal(pc)
	case "ret":
		// ret("Name", K): the value returned by the K-th call (source order) to Name in the function under
		// verification (tuple results: ret("Name", K, i)). On a path that does not pass the call the value is
		// unconstrained, so use it under a condition that selects the call's path.
		if len(args) < 2 || args[0].Op != "str" {
			sfail("ret: expected ret(\"Name\", K[, i])")
		}
		nm, _ := strconv.Unquote(args[0].Tok)
		kv := vc.compile(env, args[1])
		if kv.K != KConst {
			sfail("ret: the call ordinal must be a constant")
		}
		var call *ssa.Call
		for _, b := range vc.fn.Blocks {
			for _, ins := range b.Instrs {
				if c, ok := ins.(*ssa.Call); ok && callName(c.Common()) == nm && int64(vc.callOrdinal(c)) == kv.N.Int64() {
					call = c
				}
			}
		}
		if call == nil {
			sfail("ret: no call %s#%s in %s", nm, kv.N.String(), vc.fn.Name())
		}
		v := vc.vals[call]
		if v == nil {
			v = vc.symVal("ret_"+sanitize(nm), call.Type(), env.heap)
		}
		if len(args) == 3 {
			iv := vc.compile(env, args[2])
			if iv.K != KConst || v.K != KTuple || int(iv.N.Int64()) >= len(v.Elems) {
				sfail("ret: bad result index")
			}
			return v.Elems[iv.N.Int64()]
		}
		if v.K == KTuple {
			sfail("ret: %s returns several values; use ret(\"%s\", K, i)", nm, nm)
		}
		return v
	case "atcall":
		// atcall("Name", K, E): E evaluated in the heap as it was right after the K-th call (source order) to Name
		// returned (last time it was executed). Use it under a condition that selects the call's path.
		if len(args) != 3 || args[0].Op != "str" {
			sfail("atcall: expected atcall(\"Name\", K, E)")
		}
		nm, _ := strconv.Unquote(args[0].Tok)
		kv := vc.compile(env, args[1])
		if kv.K != KConst {
			sfail("atcall: the call ordinal must be a constant")
		}
		var call *ssa.Call
		for _, b := range vc.fn.Blocks {
			for _, ins := range b.Instrs {
				if c, ok := ins.(*ssa.Call); ok && callName(c.Common()) == nm && int64(vc.callOrdinal(c)) == kv.N.Int64() {
					call = c
				}
			}
		}
		if call == nil {
			sfail("atcall: no call %s#%s in %s", nm, kv.N.String(), vc.fn.Name())
		}
		hc := vc.callHeaps[call]
		if hc == nil {
			sfail("atcall: call %s#%s has not been executed before this point", nm, kv.N.String())
		}
		e2 := *env
		e2.heap = hc
		return vc.compile(&e2, args[2])
	case "athead":
		// athead(E): E evaluated in the heap at the head of the innermost enclosing loop (current iteration)
		need(1)
		if env.headHeap == nil {
			sfail("athead: no enclosing loop head state available here")
		}
		e2 := *env
		e2.heap = env.headHeap
		return vc.compile(&e2, args[0])
	case "at":
		// at("marker", E): E evaluated in the heap as it was when that assert marker was last passed
		need(2)
		if args[0].Op != "str" {
			sfail("at: first argument must be a marker string")
		}
		mk, _ := strconv.Unquote(args[0].Tok)
		hm := env.marks[mk]
		if hm == nil {
			sfail("at: marker %q has not been passed (or has no assert clause)", mk)
		}
		e2 := *env
		e2.heap = hm
		return vc.compile(&e2, args[1])
	case "len":
		need(1)
		return vc.specLen(vc.compile(env, args[0]))
	case "cap":
		need(1)
		x := vc.compile(env, args[0])
		if x.K != KSlice {
			sfail("cap of non-slice")
		}
		return vc.bv(x.C[3], 64, true, types.Typ[types.Int])
	case "ite":
		need(3)
		c := vc.compileBool(env, args[0])
		a, b := vc.compile(env, args[1]), vc.compile(env, args[2])
		if a.K == KConst && b.K == KBV {
			a = vc.constTo(a, b.W, b.Signed)
		}
		if b.K == KConst && a.K == KBV {
			b = vc.constTo(b, a.W, a.Signed)
		}
		if a.K == KConst && b.K == KConst {
			a, b = &Val{K: KInt, C: []string{intLit(a.N)}}, &Val{K: KInt, C: []string{intLit(b.N)}}
		}
		if a.K != b.K || len(a.C) != len(b.C) {
			sfail("ite branches differ in kind")
		}
		out := *a
		out.C = make([]string, len(a.C))
		for i := range a.C {
			out.C[i] = sIte(c, a.C[i], b.C[i])
		}
		return &out
	case "sep":
		need(2)
		a, b := vc.compile(env, args[0]), vc.compile(env, args[1])
		return vc.boolVal(sNot(sEq(vc.refOf(a), vc.refOf(b))))
	case "disjoint":
		// disjoint(p, q): the cells p denotes and the cells q denotes do not overlap (different objects, or
		// non-overlapping windows of one object; offsets are below 2^40, so the sums do not wrap)
		need(2)
		a, b := vc.compile(env, args[0]), vc.compile(env, args[1])
		ar, ao, an := vc.regionOf(a)
		br, bo, bn := vc.regionOf(b)
		if an == "" || bn == "" {
			return vc.boolVal(sNot(sEq(ar, br)))
		}
		return vc.boolVal(sOr(sNot(sEq(ar, br)), bvCmp("bvule", bvBin("bvadd", ao, an), bo), bvCmp("bvule", bvBin("bvadd", bo, bn), ao)))
	case "within":
		// within(p, q): the cells p denotes lie inside the cells q denotes
		need(2)
		a, b := vc.compile(env, args[0]), vc.compile(env, args[1])
		ar, ao, an := vc.regionOf(a)
		br, bo, bn := vc.regionOf(b)
		if an == "" || bn == "" {
			return vc.boolVal(sEq(ar, br))
		}
		rel := bvBin("bvsub", ao, bo)
		return vc.boolVal(sAnd(sEq(ar, br), bvCmp("bvule", rel, bn), bvCmp("bvule", bvBin("bvadd", rel, an), bn)))
	case "sameobj":
		need(1)
		a := vc.compile(env, args[0])
		r := vc.refOf(a)
		var cs []string
		for _, c := range sortedKeys(vc.elemComps(a)) {
			cs = append(cs, sEq(sel(env.heap.m[c], r), sel(env.old.m[c], r)))
		}
		return vc.boolVal(sAnd(cs...))
	case "fresh":
		need(1)
		a := vc.compile(env, args[0])
		return vc.boolVal(app(">=", vc.refOf(a), env.old.alloc))
	case "ref":
		need(1)
		return &Val{K: KInt, C: []string{vc.refOf(vc.compile(env, args[0]))}}
	case "samestart":
		// samestart(a, b): the slices / pointers a and b start at the same cell of the same allocated object
		need(2)
		a, b := vc.compile(env, args[0]), vc.compile(env, args[1])
		for _, v := range []*Val{a, b} {
			if (v.K != KPtr && v.K != KSlice) || len(v.C) < 2 {
				sfail("samestart: arguments must be pointers or slices")
			}
		}
		return vc.boolVal(app("and", sEq(a.C[0], b.C[0]), sEq(a.C[1], b.C[1])))
	case "Z":
		need(1)
		return &Val{K: KInt, C: []string{vc.toInt(vc.compile(env, args[0]))}}
	case "istype", "astype":
		// istype(x, T) / astype(x, T): dynamic type test / payload of interface value x; T is a type name of
		// the contract's package (optionally *T or pkg.T)
		need(2)
		x := vc.compile(env, args[0])
		if x.K != KIface {
			sfail("%s: first argument must be an interface value", name)
		}
		T := vc.specType(env, args[1])
		tag := fmt.Sprint(vc.e.typeTag(T))
		if name == "istype" {
			return vc.boolVal(sEq(x.C[0], tag))
		}
		k, w, sg := scalarKind(T)
		switch k {
		case KPtr:
			return &Val{K: KPtr, T: T, C: []string{x.C[1], x.C[2]}}
		case KBV:
			if vc.intMode {
				sfail("astype of integer payload not supported in int mode")
			}
			return vc.bv(bvConv(x.C[2], 64, false, w), w, sg, T)
		case KBool:
			return vc.boolVal(sEq(x.C[2], off64(1)))
		}
		return vc.load(env.heap, layoutOf(T), T, x.C[1], x.C[2])
	case "isfunc":
		// isfunc(x, f): function value x is the package-level function f (of the contract's package, or pkg.f)
		need(2)
		x := vc.compile(env, args[0])
		if x.K != KFunc {
			sfail("isfunc: first argument must be a function value")
		}
		var fn *ssa.Function
		switch a := args[1]; a.Op {
		case "id":
			if env.pkg != nil {
				fn = env.pkg.Func(a.Tok)
			}
		case "sel":
			if a.Args[0].Op == "id" {
				if p := vc.e.pkgByName(env.pkg, a.Args[0].Tok); p != nil {
					fn = p.Func(a.Tok)
				}
			}
		}
		if fn == nil {
			sfail("isfunc: unknown function %s", args[1])
		}
		id := vc.e.funcID(fn)
		if vc.funcCands == nil {
			vc.funcCands = map[int]*ssa.Function{}
		}
		vc.funcCands[id] = fn
		return vc.boolVal(sEq(x.C[0], fmt.Sprint(id)))
	case "isnil":
		need(1)
		return vc.boolVal(vc.isNil(vc.compile(env, args[0])))
	case "cat_eq":
		// cat_eq(buf, p1, ..., pn): the bytes of buf are the concatenation p1 || ... || pn
		// (parts: byte slices, strings, byte arrays, or single uint8 values)
		if len(args) < 2 {
			sfail("cat_eq needs a buffer and at least one part")
		}
		buf := vc.compile(env, args[0])
		br, bo, bl := vc.byteView(buf)
		hb := env.heap
		if buf.K == KAgg {
			hb = buf.H
		}
		off := off64(0)
		var cs []string
		for _, a := range args[1:] {
			pv := vc.compile(env, a)
			if pv.K == KConst {
				pv = vc.constTo(pv, 8, false)
			}
			if pv.K == KBV {
				if pv.W != 8 || vc.intMode {
					sfail("cat_eq: scalar parts must be uint8 (bit-vector mode)")
				}
				cs = append(cs, sEq(sel(sel(hb.m["bv8"], br), bvBin("bvadd", bo, off)), pv.C[0]))
				off = bvBin("bvadd", off, off64(1))
				continue
			}
			pr, po, pl := vc.byteView(pv)
			hp := env.heap
			if pv.K == KAgg {
				hp = pv.H
			}
			vc.nfresh++
			j := fmt.Sprintf("j!%d", vc.nfresh)
			cs = append(cs, fmt.Sprintf("(forall ((%s (_ BitVec 64))) (=> (bvult %s %s) (= %s %s)))", j, j, pl,
				sel(sel(hb.m["bv8"], br), bvBin("bvadd", bo, bvBin("bvadd", off, j))),
				sel(sel(hp.m["bv8"], pr), bvBin("bvadd", po, j))))
			off = bvBin("bvadd", off, pl)
		}
		cs = append([]string{sEq(bl, off)}, cs...)
		return vc.boolVal(sAnd(cs...))
	case "bytes_eq":
		need(2)
		a, b := vc.compile(env, args[0]), vc.compile(env, args[1])
		return vc.boolVal(vc.bytesEq(env, a, env.heap, b, env.heap))
	case "bytes_eq_old":
		// bytes_eq_old(a, b): contents of a now equal contents of b in the pre-state
		need(2)
		a := vc.compile(env, args[0])
		e2 := *env
		e2.heap = env.old
		b := vc.compile(&e2, args[1])
		return vc.boolVal(vc.bytesEq(env, a, env.heap, b, env.old))
	}
	if w, s, ok := goIntType(name); ok {
		need(1)
		return vc.specConv(vc.compile(env, args[0]), w, s)
	}
	if m := convRe.FindStringSubmatch(name); m != nil {
		need(1)
		w, _ := strconv.Atoi(m[1])
		return vc.specConv(vc.compile(env, args[0]), w, name[0] == 's')
	}
	// pure spec function (macro) defined in contracts
	if pf := vc.e.lookupPure(env.pkg, name); pf != nil {
		return vc.callPure(env, pf, args, name)
	}
	// uninterpreted / SMT-defined spec function
	if uf := vc.e.lookupUF(name); uf != nil {
		return vc.applyUF(env, uf, args)
	}
	sfail("unknown function %s in spec", name)
	return nil
}

// coerceArg converts an argument value to a declared parameter type of a pure function.
func (vc *VC) coerceArg(v *Val, pt string, i int, name string) *Val {
	if pt == "" {
		return v
	}
	if w, s, ok := goIntType(pt); ok {
		if v.K == KConst {
			return vc.constTo(v, w, s)
		}
		if v.K != KBV || v.W != w || v.Signed != s {
			sfail("argument %d of %s: expected %s", i+1, name, pt)
		}
		return v
	}
	if m := convRe.FindStringSubmatch(pt); m != nil {
		w, _ := strconv.Atoi(m[1])
		if v.K == KConst {
			return vc.constTo(v, w, pt[0] == 's')
		}
		if v.K != KBV || v.W != w {
			sfail("argument %d of %s: expected %s", i+1, name, pt)
		}
		return v
	}
	if pt == "Int" {
		return &Val{K: KInt, C: []string{vc.toInt(v)}}
	}
	if pt == "bool" {
		if v.K != KBool {
			sfail("argument %d of %s: expected bool", i+1, name)
		}
	}
	return v
}

func (vc *VC) callPure(env *Env, pf *PureFn, args []*SNode, name string) *Val {
	if len(args) != len(pf.Params) {
		sfail("%s expects %d arguments", name, len(pf.Params))
	}
	if env.depth > 40 {
		sfail("pure function expansion too deep (recursive?) at %s", name)
	}
	var vals []*Val
	for i, a := range args {
		vals = append(vals, vc.coerceArg(vc.compile(env, a), pf.PTypes[i], i, name))
	}
	if pf.Opaque {
		return vc.applyOpaque(env, pf, vals)
	}
	e2 := &Env{vc: vc, vars: map[string]*Val{}, heap: env.heap, old: env.old, pkg: pf.Pkg, depth: env.depth + 1}
	if e2.pkg == nil {
		e2.pkg = env.pkg
	}
	for i := range args {
		e2.vars[pf.Params[i]] = vals[i]
	}
	return vc.compile(e2, pf.Body)
}

// applyOpaque: an opaque pure function is a fresh SMT function symbol with its defining equation as a
// quantified axiom triggered on applications (a conservative definition: the body does not mention it).
func (vc *VC) applyOpaque(env *Env, pf *PureFn, vals []*Val) *Val {
	sym := "pf_" + pf.Name
	if pf.Pkg != nil {
		sym = "pf_" + sanitize(shortName(pf.Pkg.Pkg.Path())) + "_" + pf.Name
	}
	if vc.intMode {
		sym += "_int"
	}
	key := "opaque:" + sym
	if vc.opaque == nil {
		vc.opaque = map[string]*Val{}
	}
	proto, ok := vc.opaque[key]
	if !ok {
		e2 := &Env{vc: vc, vars: map[string]*Val{}, heap: vc.heap0, old: vc.heap0, pkg: pf.Pkg, depth: env.depth + 1}
		var binders, names, sorts []string
		for i, pn := range pf.Params {
			pt := pf.PTypes[i]
			vc.nfresh++
			nm := fmt.Sprintf("%s!%d", pn, vc.nfresh)
			var v *Val
			switch {
			case pt == "Int":
				v = &Val{K: KInt, C: []string{nm}}
				sorts = append(sorts, "Int")
			case pt == "bool":
				v = vc.boolVal(nm)
				sorts = append(sorts, "Bool")
			default:
				w, sg, isGo := goIntType(pt)
				if !isGo {
					m := convRe.FindStringSubmatch(pt)
					if m == nil {
						sfail("opaque pure %s: parameter %s needs an integer type", pf.Name, pn)
					}
					w, _ = strconv.Atoi(m[1])
					sg = pt[0] == 's'
				}
				v = vc.bv(nm, w, sg, nil)
				if vc.intMode {
					sorts = append(sorts, "Int")
				} else {
					sorts = append(sorts, bvSort(w))
				}
			}
			binders = append(binders, fmt.Sprintf("(%s %s)", nm, sorts[len(sorts)-1]))
			names = append(names, nm)
			e2.vars[pn] = v
		}
		body := vc.compile(e2, pf.Body)
		var ret string
		switch body.K {
		case KBV:
			ret = bvSort(body.W)
			if vc.intMode {
				ret = "Int"
			}
		case KBool:
			ret = "Bool"
		case KInt:
			ret = "Int"
		case KConst:
			body = &Val{K: KInt, C: []string{intLit(body.N)}}
			ret = "Int"
		default:
			sfail("opaque pure %s: unsupported result kind %s", pf.Name, body.K)
		}
		vc.decls = append(vc.decls, fmt.Sprintf("(declare-fun %s (%s) %s)", sym, strings.Join(sorts, " "), ret))
		appl := app(sym, names...)
		vc.decls = append(vc.decls, fmt.Sprintf("(assert (forall (%s) (! (= %s %s) :pattern (%s))))", strings.Join(binders, " "), appl, body.C[0], appl))
		p := *body
		p.C = nil
		proto = &p
		vc.opaque[key] = proto
		if vc.opaqueDef == nil {
			vc.opaqueDef = map[string]opaqueDef{}
		}
		if sx, err := parseSx(body.C[0]); err == nil {
			vc.opaqueDef[key] = opaqueDef{names: names, body: sx}
		}
	}
	var ts []string
	for i, v := range vals {
		if pf.PTypes[i] == "Int" {
			ts = append(ts, vc.toInt(v))
		} else {
			ts = append(ts, v.C[0])
		}
	}
	out := *proto
	out.C = []string{app(sym, ts...)}
	// ground applications: the instance of the defining equation is stated next to the quantified axiom
	// (the solvers otherwise only reach it by E-matching, after preprocessing)
	if od, ok := vc.opaqueDef[key]; ok && !vc.trusted["inst:"+out.C[0]] {
		ground := true
		for _, t := range ts {
			if strings.Contains(t, "!") {
				ground = false
			}
		}
		if ground && len(vc.trusted) < 4000 {
			vc.trusted["inst:"+out.C[0]] = true
			m := map[string]*Sx{}
			for i, nm := range od.names {
				if sx, err := parseSx(ts[i]); err == nil {
					m[nm] = sx
				} else {
					ground = false
				}
			}
			if ground {
				vc.assume(sEq(out.C[0], od.body.subst(m).String()))
			}
		}
	}
	return &out
}

type opaqueDef struct {
	names []string
	body  *Sx
}

func (vc *VC) specConv(x *Val, w int, signed bool) *Val {
	switch x.K {
	case KConst:
		return vc.constTo(x, w, signed)
	case KBV:
		return vc.convInt(x, w, signed, nil)
	case KBool:
		if vc.intMode {
			return vc.bv(sIte(x.C[0], "1", "0"), w, signed, nil)
		}
		return vc.bv(sIte(x.C[0], bvLitI(w, 1), bvLitI(w, 0)), w, signed, nil)
	case KInt:
		if vc.intMode {
			return vc.wrapInt(x.C[0], w, signed, nil)
		}
		return vc.bv(app(fmt.Sprintf("(_ int2bv %d)", w), x.C[0]), w, signed, nil)
	}
	sfail("cannot convert %s to integer", x.K)
	return nil
}

// specType resolves a type expression in a spec: T, *T, pkg.T, *pkg.T.
func (vc *VC) specType(env *Env, n *SNode) types.Type {
	if n.Op == "un" && n.Tok == "*" {
		return types.NewPointer(vc.specType(env, n.Args[0]))
	}
	var obj types.Object
	switch n.Op {
	case "id":
		if env.pkg != nil {
			obj = env.pkg.Pkg.Scope().Lookup(n.Tok)
		}
		if obj == nil {
			obj = types.Universe.Lookup(n.Tok)
		}
	case "sel":
		if id := n.Args[0]; id.Op == "id" {
			if p := vc.e.pkgByName(env.pkg, id.Tok); p != nil {
				obj = p.Pkg.Scope().Lookup(n.Tok)
			}
		}
	}
	if tn, ok := obj.(*types.TypeName); ok {
		return tn.Type()
	}
	sfail("cannot resolve type %s", n)
	return nil
}

func (vc *VC) refOf(a *Val) string {
	switch a.K {
	case KPtr, KSlice, KString, KAgg:
		return a.C[0]
	case KIface:
		return a.C[1]
	}
	sfail("ref of %s", a.K)
	return ""
}

func (vc *VC) elemComps(a *Val) map[string]bool {
	if a.K == KIface {
		return allComps() // the object the interface payload points to
	}
	if a.T != nil {
		switch t := a.T.Underlying().(type) {
		case *types.Slice:
			return layoutOf(t.Elem()).Comps()
		case *types.Pointer:
			return layoutOf(t.Elem()).Comps()
		case *types.Array, *types.Struct:
			return layoutOf(a.T).Comps()
		case *types.Basic:
			if a.K == KString {
				return map[string]bool{"bv8": true}
			}
		}
	}
	sfail("cannot determine element layout")
	return nil
}

// bytesEq: two byte slices/strings/arrays have equal length and contents.
func (vc *VC) bytesEq(env *Env, a *Val, ha *Heap, b *Val, hb *Heap) string {
	ar, ao, al := vc.byteView(a)
	br, bo, bl := vc.byteView(b)
	if a.K == KAgg {
		ha = a.H
	}
	if b.K == KAgg {
		hb = b.H
	}
	vc.nfresh++
	j := fmt.Sprintf("j!%d", vc.nfresh)
	return sAnd(sEq(al, bl), fmt.Sprintf("(forall ((%s (_ BitVec 64))) (=> (bvult %s %s) (= %s %s)))", j, j, al,
		sel(sel(ha.m["bv8"], ar), bvBin("bvadd", ao, j)), sel(sel(hb.m["bv8"], br), bvBin("bvadd", bo, j))))
}

func (vc *VC) byteView(a *Val) (r, o, l string) {
	switch a.K {
	case KSlice, KString:
		return a.C[0], a.C[1], a.C[2]
	case KAgg:
		return a.C[0], a.C[1], off64(layoutOf(a.T).N)
	case KPtr:
		return a.C[0], a.C[1], off64(layoutOf(a.T.Underlying().(*types.Pointer).Elem()).N)
	}
	sfail("not a byte container: %s", a.K)
	return
}

func (vc *VC) seqBin(env *Env, op string, a, b *Val) *Val {
	sfail("sequence operator %s not supported", op)
	return nil
}

#!/usr/bin/env python3
# Regenerates MANIFEST.json from the table below (keeps it schema-valid at all times).
import json, subprocess
props=[json.loads(l) for l in open('/verif/properties.jsonl')]
claimed = json.load(open('/verif/props/claims.json'))
hooks_commits = subprocess.run(['git','-C','/repo','log','--format=%h %s','--grep=^verif:'],capture_output=True,text=True).stdout.strip().split('\n')
m={"version":1,
 "setup_cmd":"cd /verif/govc && GOFLAGS=-mod=mod GOPROXY=off GOSUMDB=off GOTOOLCHAIN=local go build -o /verif/bin/govc .",
 "hooks":{"guard":"verif","enable":"contracts are comment-only files zz_contracts_verif.go with //go:build verif; govc loads /repo with -tags verif (plus purego for the portable bodies)",
          "baseline_off_cmd":"cd /repo && GOFLAGS=-mod=mod go test -vet=off -count=1 -timeout 25m ./...",
          "source_commits":[c.split()[0] for c in hooks_commits if c],"add_only":True},
 "engines":[{"name":"govc","path":"/verif/govc","serves_properties":sorted(claimed.keys()),
   "kind_free_text":"home-grown deductive verifier for Go: go/packages+go/ssa of /repo's working tree -> verification conditions (bit-vector/array SMT-LIB, Burstall-Bornat heap, contracts as //@ comments, loop invariants, frames) discharged by z3 5.1 / z3 4.8 / cvc5 1.0; counterexamples replayed on the real code with go test -overlay"}],
 "checks":[], "not_applicable":[]}
for p in props:
    id=p['id']
    if id in claimed:
        c=claimed[id]
        m["checks"].append({"property_id":id,
          "quick_cmd":f"./bin/govc check --property {id} --tier quick",
          "thorough_cmd":f"./bin/govc check --property {id} --tier thorough",
          "evidence_file":f"/verif/evidence/{id}.json",
          "replay_cmd_template":"./bin/govc replay {path}",
          "engine":"govc",
          "level_claimed":{"category":"proof","text":c["text"],"design_ref":c.get("design_ref","DESIGN.md section 4")},
          "level_note":c["note"],
          "technique":c.get("technique","contract-based deductive verification: VCs generated from go/ssa of the real code, discharged by SMT (z3/cvc5)")})
    else:
        na=json.load(open('/verif/props/not_applicable.json'))
        m["not_applicable"].append({"property_id":id,"reason":na.get(id,"no check built yet for this property (work in progress)")})
json.dump(m,open('/verif/MANIFEST.json','w'),indent=1)
print("claimed:",sorted(claimed.keys()))

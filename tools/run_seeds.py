#!/usr/bin/env python3
"""Apply each seeded change to a scratch worktree of /repo (HEAD), run the units that cover the touched packages, remove it.
usage: run_seeds.py [seed ...]   (default: all)   -> appends to /verif/seeded/RESULTS.jsonl and prints a table
Only the units (of every property) whose package list intersects the directories touched by the patch are run,
through the normal `govc check` code path on a temporary root."""
import json, os, re, subprocess, sys, tempfile, glob, shutil, time

ROOT = '/verif'
REPO = '/repo'

def units_for(dirs):
    sel = {}
    for pf in sorted(glob.glob(f'{ROOT}/props/C*.json')):
        pid = os.path.basename(pf)[:-5]
        if pid in ('claims', 'not_applicable'):
            continue
        try:
            spec = json.load(open(pf))
        except Exception:
            continue
        units = list(spec.get('units', []))
        for ff in sorted(glob.glob(f'{ROOT}/props/{pid}.d/*.json')):
            try:
                units += json.load(open(ff))
            except Exception:
                pass
        for u in units:
            pk = [p.strip('./').rstrip('/.') for p in u.get('pkgs', [])]
            hit = False
            for d in dirs:
                for p in pk:
                    p0 = p[:-3].rstrip('/') if p.endswith('...') else p
                    if d == p0 or (p.endswith('...') and d.startswith(p0)):
                        hit = True
            if hit:
                sel.setdefault(pid, []).append(u)
    return sel

BASE = {}
import threading
BASE_LOCK = threading.Lock()
BASE_KEYLOCK = {}

def run_units(pid, units, repo=None):
    repo = repo or REPO
    tmp = tempfile.mkdtemp(prefix='seedroot.')
    os.makedirs(f'{tmp}/props')
    os.symlink(f'{ROOT}/contracts', f'{tmp}/contracts')
    if os.path.exists(f'{ROOT}/known_findings.jsonl'):
        shutil.copy(f'{ROOT}/known_findings.jsonl', f'{tmp}/known_findings.jsonl')
    json.dump({'id': pid, 'units': units, 'assumptions': [], 'residual': ''}, open(f'{tmp}/props/{pid}.json', 'w'))
    env = dict(os.environ, GOVC_NOREPLAY=os.environ.get('GOVC_NOREPLAY', '1'))
    p = subprocess.run([f'{ROOT}/bin/govc', 'check', '-property', pid, '-root', tmp, '-repo', repo], capture_output=True, text=True, env=env)
    shutil.rmtree(tmp, ignore_errors=True)
    viol = [re.sub(r'replay=\S+ ', '', l) for l in p.stdout.splitlines() if l.startswith('VIOLATION')]
    names = set()
    for v in viol:
        m = re.search(r'obligation=(\S+)', v)
        names.add(m.group(1) if m else v)
    return p.returncode, viol, names, (p.stdout.strip().splitlines()[-1] if p.stdout.strip() else '')

def baseline(pid, units):
    key = pid + json.dumps(units, sort_keys=True)
    with BASE_LOCK:
        lk = BASE_KEYLOCK.setdefault(key, threading.Lock())
    with lk:
        if key not in BASE:
            BASE[key] = run_units(pid, units)[2]
    return BASE[key]

def run(seed):
    sdir = f'{ROOT}/seeded/{seed}'
    patch = f'{sdir}/patch.diff'
    dirs = set()
    for ln in open(patch):
        m = re.match(r'\+\+\+ b/(.*)', ln)
        if m:
            dirs.add(os.path.dirname(m.group(1)))
    sel = units_for(dirs)
    own = seed.split('-')[0]
    res = {'seed': seed, 'property': own, 'dirs': sorted(dirs), 'time': time.strftime('%Y-%m-%dT%H:%M:%S'), 'checks': {}}
    if subprocess.run(['git', '-C', REPO, 'apply', '--check', patch], capture_output=True).returncode != 0:
        res['error'] = 'patch does not apply'
        return res
    order = sorted(sel.keys(), key=lambda p: (p != own, p))
    base = {}   # violations already present on the unchanged tree (computed lazily, per property actually run)
    wt = tempfile.mkdtemp(prefix='seedwt.')
    os.rmdir(wt)
    subprocess.run(['git', '-C', REPO, 'worktree', 'add', '--detach', '-q', wt, 'HEAD'], check=True)
    subprocess.run(['git', '-C', wt, 'apply', patch], check=True)
    try:
        for pid in order:
            base[pid] = baseline(pid, sel[pid])
            rc, viol, names, summary = run_units(pid, sel[pid], wt)
            new = sorted(n for n in names if n not in base[pid])
            res['checks'][pid] = {'exit': rc, 'violations': len(viol), 'new': new[:5], 'baseline': len(base[pid]),
                                  'first': [v[:300] for v in viol if any(n in v for n in new)][:3], 'summary': summary}
            if new and pid == own:
                break  # detected under its own property
    finally:
        subprocess.run(['git', '-C', REPO, 'worktree', 'remove', '--force', wt])
        shutil.rmtree(wt, ignore_errors=True)
    det = [p for p, c in res['checks'].items() if c['new']]
    res['detected_by'] = det
    return res

def main():
    seeds = sys.argv[1:] or sorted(os.listdir(f'{ROOT}/seeded'))
    seeds = [s for s in seeds if os.path.isdir(f'{ROOT}/seeded/{s}')]
    out = open(f'{ROOT}/seeded/RESULTS.jsonl', 'a')
    from concurrent.futures import ThreadPoolExecutor
    par = int(os.environ.get('SEED_PAR', '3'))
    lock = threading.Lock()
    def one(s):
        try:
            r = run(s)
        except Exception as e:
            r = {'seed': s, 'error': repr(e), 'checks': {}}
        with lock:
            out.write(json.dumps(r) + '\n')
            out.flush()
            tag = 'DETECTED by ' + ','.join(r.get('detected_by', [])) if r.get('detected_by') else ('NOT-COVERED' if not r['checks'] else 'MISSED')
            if 'error' in r:
                tag = 'ERROR ' + r['error']
            first = ''
            for p in r.get('detected_by', []):
                first = r['checks'][p]['first'][0] if r['checks'][p]['first'] else ''
                break
            print(f"{s:8s} {tag:28s} {first[:170]}", flush=True)
    with ThreadPoolExecutor(max_workers=par) as ex:
        list(ex.map(one, seeds))

if __name__ == '__main__':
    main()

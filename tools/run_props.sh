#!/bin/bash
# runs the quick check of every property that has units (no replay) and prints one summary line each
OUT=${1:-/tmp/props.log}; shift; : > $OUT
PROPS=${@:-$(ls /verif/props/C*.json | xargs -n1 basename | sed 's/.json//')}
for p in $PROPS; do
  S=$(date +%s); GOVC_NOREPLAY=1 /verif/bin/govc check --property $p > /tmp/props.$p.out 2>&1; RC=$?; E=$(( $(date +%s) - S ))
  echo "== $p rc=$RC ${E}s $(grep '^property=' /tmp/props.$p.out | tail -1)" >> $OUT
  grep -E "^(VIOLATION|KNOWN-FINDING)" /tmp/props.$p.out | sed 's/replay=[^ ]* //' | cut -c1-240 | head -15 >> $OUT
done
echo DONE >> $OUT

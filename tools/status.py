#!/usr/bin/env python3
"""Prints the per-property status table (markdown) from /verif/evidence/*.json, MANIFEST.json and seeded/RESULTS.jsonl."""
import json, glob, os
ROOT = '/verif'
man = json.load(open(f'{ROOT}/MANIFEST.json'))
claimed = {c['property_id'] for c in man['checks']}
na = {n['property_id']: n['reason'] for n in man.get('not_applicable', [])}
seeds = {}
if os.path.exists(f'{ROOT}/seeded/RESULTS.jsonl'):
    for l in open(f'{ROOT}/seeded/RESULTS.jsonl'):
        try:
            r = json.loads(l)
        except Exception:
            continue
        seeds[r['seed']] = r           # last run wins
props = [json.loads(l) for l in open(f'{ROOT}/properties.jsonl')]
print('| id | claimed | functions | obligations | by kind | wall (s) | seeds detected by own check |')
print('|---|---|---|---|---|---|---|')
for p in props:
    pid = p['id']
    ev = None
    if os.path.exists(f'{ROOT}/evidence/{pid}.json'):
        ev = json.load(open(f'{ROOT}/evidence/{pid}.json'))
    own = sorted(s for s in seeds if s.split('-')[0] == pid)
    det = [s for s in own if pid in (seeds[s].get('detected_by') or [])]
    oth = [s + '(' + ','.join(seeds[s]['detected_by']) + ')' for s in own if s not in det and seeds[s].get('detected_by')]
    sd = f"{len(det)}/{len(own)}" + (f" (+{' '.join(oth)} by other checks)" if oth else '') if own else '-'
    if ev:
        c = ev['coverage']
        kinds = ', '.join(f"{k} {v}" for k, v in sorted(c.get('obligations_by_kind', {}).items()))
        print(f"| {pid} | {'yes' if pid in claimed else 'no'} | {c.get('functions')} | {c.get('discharged')}/{c.get('obligations')} | {kinds} | {round(ev.get('wall_s', 0))} | {sd} |")
    else:
        print(f"| {pid} | {'n/a' if pid in na else 'no'} | | | | | {sd} |")

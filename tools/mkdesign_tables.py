#!/usr/bin/env python3
"""Prints markdown for DESIGN.md: fixed defects, known findings and the seeded-change matrix."""
import json, os, re, glob
ROOT='/verif'
print('#### Defects repaired (`fix:` commits in /repo)\n')
print('| property | commit | what failed |')
print('|---|---|---|')
for l in open(f'{ROOT}/known_findings.jsonl'):
    m = re.match(r'fixed: property=(\S+) (\S+) (.*)', l.strip())
    if m:
        print(f"| {m.group(1)} | `{m.group(2)}` | {m.group(3).replace('|','/')} |")
print('\n#### Known findings (recorded, not repaired)\n')
print('| property | obligation | failing inputs | what |')
print('|---|---|---|---|')
for l in open(f'{ROOT}/known_findings.jsonl'):
    l=l.strip()
    if l.startswith('{'):
        d=json.loads(l)
        print(f"| {d['property']} | `{d['obligation'].replace('github.com/cloudflare/circl/','')}` | `{d['except']}` | {d['what'].replace('|','/')} |")
print('\n#### Seeded changes\n')
seeds={}
if os.path.exists(f'{ROOT}/seeded/RESULTS.jsonl'):
    for l in open(f'{ROOT}/seeded/RESULTS.jsonl'):
        try: r=json.loads(l)
        except Exception: continue
        seeds[r['seed']]=r
print('| seed | change | detected by | first failing obligation |')
print('|---|---|---|---|')
for d in sorted(glob.glob(f'{ROOT}/seeded/C*-*')):
    s=os.path.basename(d)
    try: meta=json.load(open(f'{d}/meta.json'))
    except Exception: meta={}
    desc=(meta.get('summary') or meta.get('description') or '')
    desc=re.sub(r'\s+',' ',desc)[:170].replace('|','/')
    r=seeds.get(s,{})
    det=','.join(r.get('detected_by') or []) or ('(not run)' if not r else ('patch no longer applies' if 'error' in r else 'missed'))
    first=''
    for p in r.get('detected_by') or []:
        f=r['checks'][p].get('first') or []
        if f:
            m=re.search(r'obligation=(\S+)',f[0]); first=(m.group(1) if m else f[0][:80]).replace('github.com/cloudflare/circl/','')
        break
    print(f"| {s} | {desc} | {det} | `{first}` |")

#!/usr/bin/env python3
"""Copies the latest result of each seed from seeded/RESULTS.jsonl into its meta.json (detected_by, first obligation)."""
import json, os, re, glob
ROOT='/verif'
last={}
for l in open(f'{ROOT}/seeded/RESULTS.jsonl'):
    try: r=json.loads(l)
    except Exception: continue
    last[r['seed']]=r
for d in sorted(glob.glob(f'{ROOT}/seeded/C*-*')):
    s=os.path.basename(d); mf=f'{d}/meta.json'
    try: meta=json.load(open(mf))
    except Exception: meta={}
    r=last.get(s)
    if not r: continue
    meta['detected_by']=r.get('detected_by') or []
    first=''
    for p in meta['detected_by']:
        f=r['checks'][p].get('first') or []
        if f:
            m=re.search(r'obligation=(\S+)',f[0]); first=m.group(1) if m else f[0][:120]
        break
    meta['first_failing_obligation']=first
    meta['checked_at']=r.get('time')
    if 'error' in r: meta['run_error']=r['error']
    json.dump(meta,open(mf,'w'),indent=1)
print('updated',len(last))

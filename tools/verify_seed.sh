#!/bin/bash
# usage: verify_seed.sh <seed dir> <worktree>   -- confirms: pristine demo passes; patched builds, pkg tests pass, demo fails
export GOFLAGS=-mod=mod GOPROXY=off GOSUMDB=off GOTOOLCHAIN=local
S=$1; W=$2
cd $W || exit 2
git checkout -q -- . ; git clean -fdq -- . >/dev/null 2>&1
PKG=$(python3 -c "import json;print(json.load(open('$S/meta.json'))['package_dir'].strip('./'))")
TAGS=$(python3 -c "import json;print(json.load(open('$S/meta.json')).get('build_tags',''))")
DEMO=$(ls $S/*_test.go 2>/dev/null | head -1)
[ -z "$DEMO" ] && { echo "RESULT $S no-demo-test"; exit 1; }
cp $DEMO $W/$PKG/zz_seed_demo_test.go
go test -vet=off -count=1 -tags "$TAGS" -run 'TestSeedDemo' ./$PKG > /tmp/vs_$$.out 2>&1; P1=$?
git apply $S/patch.diff || { echo "RESULT $S patch-does-not-apply"; rm -f $W/$PKG/zz_seed_demo_test.go; exit 1; }
go build ./... > /tmp/vs_$$.build 2>&1; B=$?
go test -vet=off -count=1 -tags "$TAGS" -run 'TestSeedDemo' ./$PKG > /tmp/vs_$$.out2 2>&1; P2=$?
rm -f $W/$PKG/zz_seed_demo_test.go
# existing tests of packages touched by the patch
PKGS=$(grep '^+++ b/' $S/patch.diff | sed 's#+++ b/##' | xargs -n1 dirname | sort -u | sed 's#^#./#' | tr '\n' ' ')
go test -vet=off -count=1 -tags "$TAGS" $PKGS ./$PKG 2>&1 | grep -v "TestVectors\|vectors_test.go\|^ok\|no test files\|^FAIL$\|^FAIL.*hpke" > /tmp/vs_$$.t ; 
TF=$(grep -c -- "--- FAIL" /tmp/vs_$$.t)
git checkout -q -- . ; git clean -fdq -- . >/dev/null 2>&1
echo "RESULT $S pristine_demo_exit=$P1 build=$B patched_demo_exit=$P2 existing_test_failures=$TF pkgs=[$PKGS]"
rm -f /tmp/vs_$$.*

#!/bin/bash
# usage: run_seed.sh <seed-name e.g. C07-1> [property id (default: seed's property)] [tier]
# applies the seeded change to /repo, runs the property's check, reverts the change. Prints DETECTED / MISSED.
S=/verif/seeded/$1; P=${2:-${1%%-*}}; T=${3:-quick}
cd /repo || exit 2
git apply --check $S/patch.diff 2>/dev/null || { echo "$1 $P PATCH-DOES-NOT-APPLY"; exit 3; }
git apply $S/patch.diff
OUT=$(cd /verif && ./bin/govc check --property $P --tier $T 2>&1); RC=$?
git apply -R $S/patch.diff
if [ $RC -eq 1 ] && echo "$OUT" | grep -q "^VIOLATION"; then
  echo "$1 $P DETECTED: $(echo "$OUT" | grep '^VIOLATION' | head -2 | sed 's/replay=[^ ]* //' | tr '\n' ';')"
else
  echo "$1 $P MISSED (exit=$RC) $(echo "$OUT" | tail -1)"
fi

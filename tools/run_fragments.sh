#!/bin/bash
# runs every unit fragment on its own (no replay) and prints one summary line each
OUT=${1:-/tmp/fragments.log}; : > $OUT
for f in /verif/props/*.d/*.json; do
  R=$(mktemp -d /tmp/fragroot.XXXX); mkdir -p $R/props; ln -s /verif/contracts $R/contracts
  python3 - "$f" "$R" <<'PY'
import json,sys
u=json.load(open(sys.argv[1])); json.dump({"id":"T","units":u,"assumptions":[],"residual":""},open(sys.argv[2]+"/props/T.json","w"))
PY
  S=$(date +%s); GOVC_NOREPLAY=1 /verif/bin/govc check -property T -root $R -repo /repo > $R/out.txt 2>&1; E=$(( $(date +%s) - S ))
  echo "== $f ${E}s $(tail -1 $R/out.txt)" >> $OUT
  grep "^VIOLATION" $R/out.txt | sed 's/replay=[^ ]* //' | cut -c1-220 | head -12 >> $OUT
  rm -rf $R
done
echo DONE >> $OUT
